// C19 target 5: shape fuzzing of the build-description loader. The bytes are decoded into
// a YAML tree (scalars / sequences / mappings, keys from a dictionary of every section, tool
// and attribute name plus junk) which the harness serialises into WELL-FORMED YAML and loads
// through BuildSystem::loadDescription on an in-memory file system.
#include "fz_common.h"
#include "llbuild/Basic/FileSystem.h"
#include "llbuild/BuildSystem/BuildSystem.h"
#include "llbuild/BuildSystem/Tool.h"
#include "llbuild/BuildSystem/Command.h"
#include "llbuild/Basic/ExecutionQueue.h"
#include "llvm/Support/MemoryBuffer.h"
#include <fuzzer/FuzzedDataProvider.h>
#include <initializer_list>
#include <memory>
#include <string>
#include <vector>
using namespace llbuild;
using namespace llbuild::basic;
using namespace llbuild::buildsystem;
FZ_DEFINE_STATS("buildfile")

static const char* kSections[] = {"client", "tools", "targets", "default", "nodes", "commands"};
static const char* kWords[] = {
    "client", "tools", "targets", "default", "nodes", "commands", "name", "version", "file-system", "basic",
    "0", "1", "default", "device-agnostic", "checksum-only", "tool", "shell", "phony", "mkdir", "symlink",
    "archive", "clang", "swift-compiler", "stale-file-removal", "shared-library", "swift-get-version",
    "inputs", "outputs", "args", "env", "description", "deps", "deps-style", "makefile",
    "makefile-ignoring-subsequent-outputs", "dependency-info", "allow-missing-inputs", "allow-modified-outputs",
    "always-out-of-date", "inherit-env", "can-safely-interrupt", "working-directory", "control-enabled",
    "signature", "contents", "expectedOutputs", "roots", "is-directory", "is-directory-structure", "is-virtual",
    "is-command-timestamp", "is-mutated", "content-exclusion-patterns", "true", "false", "yes", "no", "<all>",
    "<virt>", "dir/", "a.out", "b.o", "/abs/path", "", "executable", "sources", "objects", "import-paths",
    "module-name", "module-output-path", "temps-path", "other-args", "is-library", "num-threads",
    "enable-whole-module-optimization", "link-output-path", "must-scan-after-paths", "type", "virtual",
    "directory", "directory-structure", "plain", "repair-via-ownership-analysis", "echo", "-c", "C1", "C2",
    "T", "unknown-tool", "junk-attr", "module-aliases", "compiler-style", "cl", "swiftc", "fifo",
    "commandNamePriority", "perform-ownership-analysis"};

struct YNode {
  int kind;  // 0 scalar, 1 sequence, 2 mapping, 3 null (empty value)
  std::string scalar;
  std::vector<YNode> seq;
  std::vector<std::pair<std::string, YNode>> map;
};

static std::string word(FuzzedDataProvider& fdp) {
  unsigned c = fdp.ConsumeIntegralInRange<unsigned>(0, 19);
  if (c < 16) return kWords[fdp.ConsumeIntegralInRange<size_t>(0, sizeof(kWords) / sizeof(kWords[0]) - 1)];
  if (c < 18) {
    // arbitrary bytes, but no NUL: the statement quantifies over document *shapes*; a NUL inside
    // a scalar trips an assert in StringList (input contract of that class), recorded in DESIGN.md
    std::string s = fdp.ConsumeRandomLengthString(12);
    for (auto& ch : s) if (ch == 0) ch = 'N';
    return s;
  }
  return std::to_string(fdp.ConsumeIntegral<int>());
}

static YNode gen(FuzzedDataProvider& fdp, int depth, int& budget) {
  YNode n;
  budget--;
  int k = fdp.ConsumeIntegralInRange<int>(0, 10);
  if (k == 10) { n.kind = 3; return n; }
  if (depth >= 5 || budget <= 0 || k < 4) { n.kind = 0; n.scalar = word(fdp); return n; }
  if (k < 6) {
    n.kind = 1;
    int cnt = fdp.ConsumeIntegralInRange<int>(0, 4);
    for (int i = 0; i < cnt && budget > 0; ++i) n.seq.push_back(gen(fdp, depth + 1, budget));
    return n;
  }
  n.kind = 2;
  int cnt = fdp.ConsumeIntegralInRange<int>(0, 5);
  for (int i = 0; i < cnt && budget > 0; ++i) {
    std::string key = word(fdp);
    n.map.emplace_back(key, gen(fdp, depth + 1, budget));
  }
  return n;
}

static YNode sc(const std::string& s) { YNode n; n.kind = 0; n.scalar = s; return n; }
static YNode sq(std::initializer_list<const char*> items) {
  YNode n; n.kind = 1;
  for (auto* i : items) n.seq.push_back(sc(i));
  return n;
}
// A VALID description using every section and the common attributes of the built-in tools; the fuzzer
// then replaces nodes at generated paths by nodes of a generated (usually wrong) kind, so that wrong node
// kinds are reached at every depth of an otherwise acceptable document.
static YNode skeleton(FuzzedDataProvider& fdp) {
  YNode top; top.kind = 2;
  YNode client; client.kind = 2;
  client.map.emplace_back("name", sc("basic"));
  client.map.emplace_back("version", sc("0"));
  client.map.emplace_back("file-system", sc(fdp.ConsumeBool() ? "default" : "device-agnostic"));
  top.map.emplace_back("client", client);
  YNode tools; tools.kind = 2;
  YNode shellTool; shellTool.kind = 2; shellTool.map.emplace_back("junk-attr", sc("1"));
  tools.map.emplace_back("shell", shellTool);
  top.map.emplace_back("tools", tools);
  YNode targets; targets.kind = 2;
  targets.map.emplace_back("", sq({"<all>"}));
  targets.map.emplace_back("T", sq({"a.out", "<virt>"}));
  top.map.emplace_back("targets", targets);
  top.map.emplace_back("default", sc(""));
  YNode nodes; nodes.kind = 2;
  YNode d; d.kind = 2;
  d.map.emplace_back("is-directory-structure", sc("true"));
  d.map.emplace_back("content-exclusion-patterns", sq({"*.o", "tmp"}));
  nodes.map.emplace_back("dir/", d);
  YNode v; v.kind = 2; v.map.emplace_back("is-virtual", sc("true")); v.map.emplace_back("is-command-timestamp", sc("false"));
  nodes.map.emplace_back("<virt>", v);
  top.map.emplace_back("nodes", nodes);
  YNode commands; commands.kind = 2;
  {
    YNode c; c.kind = 2;
    c.map.emplace_back("tool", sc("shell"));
    c.map.emplace_back("inputs", sq({"dir/", "b.o"}));
    c.map.emplace_back("outputs", sq({"a.out", "<virt>"}));
    c.map.emplace_back("args", fdp.ConsumeBool() ? sq({"echo", "-c"}) : sc("echo 1"));
    YNode env; env.kind = 2; env.map.emplace_back("A", sc("1")); env.map.emplace_back("PATH", sc("/abs/path"));
    c.map.emplace_back("env", env);
    c.map.emplace_back("deps", fdp.ConsumeBool() ? sq({"a.d", "b.d"}) : sc("a.d"));
    c.map.emplace_back("deps-style", sc("makefile"));
    c.map.emplace_back("inherit-env", sc("false"));
    c.map.emplace_back("working-directory", sc("/abs/path"));
    c.map.emplace_back("description", sc("C1"));
    commands.map.emplace_back("C1", c);
  }
  {
    YNode c; c.kind = 2;
    c.map.emplace_back("tool", sc("phony"));
    c.map.emplace_back("inputs", sq({"a.out"}));
    c.map.emplace_back("outputs", sq({"<all>"}));
    commands.map.emplace_back("C2", c);
  }
  {
    YNode c; c.kind = 2;
    c.map.emplace_back("tool", sc("mkdir"));
    c.map.emplace_back("outputs", sq({"dir2"}));
    commands.map.emplace_back("C3", c);
  }
  {
    YNode c; c.kind = 2;
    c.map.emplace_back("tool", sc("symlink"));
    c.map.emplace_back("outputs", sq({"ln"}));
    c.map.emplace_back("contents", sc("a.out"));
    commands.map.emplace_back("C4", c);
  }
  {
    YNode c; c.kind = 2;
    c.map.emplace_back("tool", sc("stale-file-removal"));
    c.map.emplace_back("expectedOutputs", sq({"/abs/path", "a.out"}));
    c.map.emplace_back("roots", sq({"/abs"}));
    c.map.emplace_back("outputs", sq({"<stale>"}));
    commands.map.emplace_back("C5", c);
  }
  {
    YNode c; c.kind = 2;
    c.map.emplace_back("tool", sc("archive"));
    c.map.emplace_back("inputs", sq({"b.o"}));
    c.map.emplace_back("outputs", sq({"lib.a"}));
    commands.map.emplace_back("C6", c);
  }
  top.map.emplace_back("commands", commands);
  return top;
}
static void mutate(YNode& n, FuzzedDataProvider& fdp, int depth, int& budget) {
  bool stop = depth > 0 && (fdp.ConsumeIntegralInRange<int>(0, 3) == 0 || n.kind == 0 || n.kind == 3 ||
                            (n.kind == 1 && n.seq.empty()) || (n.kind == 2 && n.map.empty()));
  if (stop) {
    switch (fdp.ConsumeIntegralInRange<int>(0, 5)) {
    case 0: n = YNode(); n.kind = 3; break;                                  // empty value
    case 1: n = sc(word(fdp)); break;                                        // scalar
    case 2: { YNode r; r.kind = 1; r.seq.push_back(gen(fdp, depth + 1, budget)); n = r; break; }   // sequence
    case 3: { YNode r; r.kind = 2; r.map.emplace_back(word(fdp), gen(fdp, depth + 1, budget)); n = r; break; }
    case 4: n = gen(fdp, depth, budget); break;
    default:                                                                  // wrap the old node
      { YNode old = n; YNode r; r.kind = fdp.ConsumeBool() ? 1 : 2;
        if (r.kind == 1) r.seq.push_back(old); else r.map.emplace_back(word(fdp), old);
        n = r; }
    }
    return;
  }
  if (n.kind == 1) mutate(n.seq[fdp.ConsumeIntegralInRange<size_t>(0, n.seq.size() - 1)], fdp, depth + 1, budget);
  else if (n.kind == 2) mutate(n.map[fdp.ConsumeIntegralInRange<size_t>(0, n.map.size() - 1)].second, fdp, depth + 1, budget);
}

static void emitScalar(std::string& out, const std::string& s) {
  out.push_back('"');
  for (unsigned char c : s) {
    if (c == '"' || c == '\\') { out.push_back('\\'); out.push_back(c); }
    else if (c < 0x20 || c >= 0x7f) { char b[8]; snprintf(b, sizeof b, "\\x%02x", c); out += b; }
    else out.push_back(c);
  }
  out.push_back('"');
}
static void emitFlow(std::string& out, const YNode& n) {
  if (n.kind == 3) { out += "~"; return; }
  if (n.kind == 0) { emitScalar(out, n.scalar); return; }
  if (n.kind == 1) {
    out += "[";
    for (size_t i = 0; i < n.seq.size(); ++i) { if (i) out += ", "; emitFlow(out, n.seq[i]); }
    out += "]";
    return;
  }
  out += "{";
  for (size_t i = 0; i < n.map.size(); ++i) {
    if (i) out += ", ";
    emitScalar(out, n.map[i].first);
    out += ": ";
    emitFlow(out, n.map[i].second);
  }
  out += "}";
}
static void emitBlock(std::string& out, const YNode& n, int indent) {
  std::string pad(indent, ' ');
  if (n.kind == 3) { out += "\n"; return; }
  if (n.kind == 0) { emitScalar(out, n.scalar); out += "\n"; return; }
  if (n.kind == 1) {
    if (n.seq.empty()) { out += "[]\n"; return; }
    out += "\n";
    for (auto& c : n.seq) {
      out += pad + "- ";
      if (c.kind == 0) { emitScalar(out, c.scalar); out += "\n"; }
      else { emitFlow(out, c); out += "\n"; }
    }
    return;
  }
  if (n.map.empty()) { out += "{}\n"; return; }
  out += "\n";
  for (auto& kv : n.map) {
    out += pad;
    emitScalar(out, kv.first);
    out += ": ";
    emitBlock(out, kv.second, indent + 2);
  }
}

namespace {
class MemFS : public FileSystem {
public:
  std::string contents;
  bool createDirectory(const std::string&) override { return false; }
  std::unique_ptr<llvm::MemoryBuffer> getFileContents(const std::string&) override {
    return llvm::MemoryBuffer::getMemBufferCopy(contents, "main.llbuild");
  }
  bool remove(const std::string&) override { return false; }
  FileChecksum getFileChecksum(const std::string&) override { return FileChecksum{}; }
  FileInfo getFileInfo(const std::string&) override { return FileInfo{}; }
  FileInfo getLinkInfo(const std::string&) override { return FileInfo{}; }
  bool createSymlink(const std::string&, const std::string&) override { return false; }
};
class QDelegate : public ExecutionQueueDelegate {
  void queueJobStarted(JobDescriptor*) override {}
  void queueJobFinished(JobDescriptor*) override {}
  void processStarted(ProcessContext*, ProcessHandle, llbuild_pid_t) override {}
  void processHadError(ProcessContext*, ProcessHandle, const Twine&) override {}
  void processHadOutput(ProcessContext*, ProcessHandle, StringRef) override {}
  void processFinished(ProcessContext*, ProcessHandle, const ProcessResult&) override {}
};
class Delegate : public BuildSystemDelegate {
  QDelegate qd;
public:
  Delegate() : BuildSystemDelegate("basic", 0) {}
  void setFileContentsBeingParsed(StringRef) override {}
  void error(StringRef, const Token&, const Twine&) override { gStats.errors++; }
  std::unique_ptr<Tool> lookupTool(StringRef) override { return nullptr; }
  std::unique_ptr<ExecutionQueue> createExecutionQueue() override {
    return std::unique_ptr<ExecutionQueue>(createLaneBasedExecutionQueue(
        qd, 1, SchedulerAlgorithm::NamePriority, getDefaultQualityOfService(), nullptr));
  }
  void hadCommandFailure() override {}
  void commandStatusChanged(Command*, CommandStatusKind) override {}
  void commandPreparing(Command*) override {}
  bool shouldCommandStart(Command*) override { return false; }
  void commandStarted(Command*) override {}
  void commandHadError(Command*, StringRef) override {}
  void commandHadNote(Command*, StringRef) override {}
  void commandHadWarning(Command*, StringRef) override {}
  void commandFinished(Command*, ProcessStatus) override {}
  void commandFoundDiscoveredDependency(Command*, StringRef, DiscoveredDependencyKind) override {}
  void commandCannotBuildOutputDueToMissingInputs(Command*, Node*, ArrayRef<BuildKey>) override {}
  Command* chooseCommandFromMultipleProducers(Node*, std::vector<Command*>) override { return nullptr; }
  void cannotBuildNodeDueToMultipleProducers(Node*, std::vector<Command*>) override {}
  void determinedRuleNeedsToRun(core::Rule*, core::Rule::RunReason, core::Rule*) override {}
};
}

extern "C" int LLVMFuzzerTestOneInput(const uint8_t* data, size_t size) {
  if (size > 8192) return 0;
  gStats.execs++;
  FuzzedDataProvider fdp(data, size);
  // top level: mostly the documented sections (possibly missing / duplicated / mis-ordered)
  YNode top;
  top.kind = 2;
  int budget = 120;
  int shape = fdp.ConsumeIntegralInRange<int>(0, 3);
  bool wellOrdered = shape == 1;
  if (shape >= 2) {
    // a valid description with 0-3 nodes replaced
    top = skeleton(fdp);
    int nmut = fdp.ConsumeIntegralInRange<int>(0, 3);
    for (int i = 0; i < nmut; ++i) mutate(top, fdp, 0, budget);
  } else if (wellOrdered) {
    for (const char* s : kSections) {
      if (fdp.ConsumeIntegralInRange<int>(0, 9) == 0) continue;
      YNode v;
      std::string sec(s);
      if (sec == "client" && fdp.ConsumeIntegralInRange<int>(0, 3) != 0) {
        v.kind = 2;
        YNode n; n.kind = 0; n.scalar = fdp.ConsumeIntegralInRange<int>(0, 5) ? "basic" : word(fdp);
        v.map.emplace_back("name", n);
        YNode ver; ver.kind = 0; ver.scalar = fdp.ConsumeIntegralInRange<int>(0, 5) ? "0" : word(fdp);
        v.map.emplace_back("version", ver);
        int extra = fdp.ConsumeIntegralInRange<int>(0, 2);
        for (int i = 0; i < extra; ++i) v.map.emplace_back(word(fdp), gen(fdp, 2, budget));
      } else {
        v = gen(fdp, 1, budget);
      }
      top.map.emplace_back(sec, v);
      if (fdp.ConsumeIntegralInRange<int>(0, 15) == 0) top.map.emplace_back(sec, gen(fdp, 1, budget));
    }
  } else {
    int cnt = fdp.ConsumeIntegralInRange<int>(0, 8);
    for (int i = 0; i < cnt; ++i) {
      std::string key = fdp.ConsumeBool() ? kSections[fdp.ConsumeIntegralInRange<int>(0, 5)] : word(fdp);
      top.map.emplace_back(key, gen(fdp, 1, budget));
    }
  }
  std::string yaml;
  if (fdp.ConsumeIntegralInRange<int>(0, 3) == 0) { emitFlow(yaml, top); yaml += "\n"; }
  else {
    for (auto& kv : top.map) {
      emitScalar(yaml, kv.first);
      yaml += ": ";
      emitBlock(yaml, kv.second, 2);
    }
    if (top.map.empty()) yaml = "{}\n";
  }
  if (getenv("FZ_DUMP")) fprintf(stderr, "---\n%s...\n", yaml.c_str());
  Delegate delegate;
  auto fs = std::unique_ptr<MemFS>(new MemFS);
  fs->contents = yaml;
  BuildSystem system(delegate, std::move(fs));
  bool ok = system.loadDescription("main.llbuild");
  if (ok) gStats.nontrivial++;
  return 0;
}
