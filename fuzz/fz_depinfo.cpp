// C19 target 4: ld64-style dependency-info files.
#include "fz_common.h"
#include "llbuild/Core/DependencyInfoParser.h"
using namespace llbuild;
using namespace llbuild::core;
FZ_DEFINE_STATS("depinfo")

namespace {
struct Actions : DependencyInfoParser::ParseActions {
  const ExactBuffer& buf;
  size_t calls = 0;
  bool any = false;
  explicit Actions(const ExactBuffer& b) : buf(b) {}
  void check(StringRef s) {
    calls++;
    any = true;
    FZ_ORACLE(calls <= buf.n + 2, "parser callbacks exceed size+2");
    FZ_ORACLE(buf.contains(s.data(), s.size()), "callback carries a StringRef outside the buffer");
  }
  void error(const char*, uint64_t position) override {
    gStats.errors++;
    calls++;
    FZ_ORACLE(calls <= buf.n + 2, "parser callbacks exceed size+2");
    FZ_ORACLE(position <= buf.n, "error position beyond the buffer");
  }
  void actOnVersion(StringRef s) override { check(s); }
  void actOnInput(StringRef s) override { check(s); }
  void actOnOutput(StringRef s) override { check(s); }
  void actOnMissing(StringRef s) override { check(s); }
};
}

extern "C" int LLVMFuzzerTestOneInput(const uint8_t* data, size_t size) {
  if (size > 65536) return 0;
  gStats.execs++;
  ExactBuffer buf(data, size);
  Actions actions(buf);
  DependencyInfoParser(StringRef(buf.p, buf.n), actions).parse();
  if (actions.any) gStats.nontrivial++;
  return 0;
}
