// C19 target 2: the Ninja manifest loader over an in-memory file table.
#include "fz_common.h"
#include "llbuild/Ninja/Manifest.h"
#include "llbuild/Ninja/ManifestLoader.h"
#include "llbuild/Ninja/Lexer.h"
#include "llvm/Support/MemoryBuffer.h"
#include <map>
#include <vector>
using namespace llbuild;
using namespace llbuild::ninja;
FZ_DEFINE_STATS("ninja_loader")

namespace {
// A MemoryBuffer over an exact-size heap block without NUL terminator.
class ExactMemBuffer : public llvm::MemoryBuffer {
  char* mem;
  std::string name;
public:
  ExactMemBuffer(const std::string& contents, const std::string& name) : name(name) {
    mem = (char*)malloc(contents.size() ? contents.size() : 1);
    memcpy(mem, contents.data(), contents.size());
    init(mem, mem + contents.size(), /*RequiresNullTerminator=*/false);
  }
  ~ExactMemBuffer() override { free(mem); }
  StringRef getBufferIdentifier() const override { return name; }
  BufferKind getBufferKind() const override { return MemoryBuffer_Malloc; }
};

struct Actions : ManifestLoaderActions {
  std::map<std::string, std::string> files;
  unsigned depth = 0, reads = 0;
  void initialize(ManifestLoader*) override {}
  void error(StringRef, StringRef, const Token&) override { gStats.errors++; }
  std::unique_ptr<llvm::MemoryBuffer> readFile(StringRef path, StringRef, const Token*) override {
    // a client may refuse a file: bound the include nesting / count so that a
    // self-including table is a clean error rather than unbounded recursion
    // (recorded separately, see DESIGN section 4)
    if (++reads > 200) { gStats.skipped++; return nullptr; }
    std::string p = path.str();
    auto slash = p.rfind('/');
    std::string base = slash == std::string::npos ? p : p.substr(slash + 1);
    auto it = files.find(base);
    if (it == files.end()) return nullptr;
    return std::unique_ptr<llvm::MemoryBuffer>(new ExactMemBuffer(it->second, base));
  }
};
}

extern "C" int LLVMFuzzerTestOneInput(const uint8_t* data, size_t size) {
  if (size > 65536) return 0;
  gStats.execs++;
  // File table: the input is split at 0x1c bytes into main, a.ninja, b.ninja, c.ninja
  Actions actions;
  const char* names[4] = {"build.ninja", "a.ninja", "b.ninja", "c.ninja"};
  size_t start = 0, idx = 0;
  for (size_t i = 0; i <= size && idx < 4; ++i) {
    if (i == size || data[i] == 0x1c) {
      actions.files[names[idx++]] = std::string((const char*)data + start, i - start);
      start = i + 1;
    }
  }
  ManifestLoader loader("/wd", "build.ninja", actions);
  auto manifest = loader.load();
  if (manifest && !manifest->getCommands().empty()) gStats.nontrivial++;
  if (manifest) {
    // touch every loaded string so that dangling references are visible to ASan
    size_t total = 0;
    for (auto* c : manifest->getCommands()) {
      total += c->getCommandString().size() + c->getDescription().size() + c->getDepsFile().size();
      for (auto* n : c->getOutputs()) total += n->getScreenPath().size();
      for (auto* n : c->getInputs()) total += n->getScreenPath().size();
    }
    gStats.callbacks += total != (size_t)-1;
  }
  return 0;
}

// Grammar-aware mutation: half of the mutations work on whole LINES (the unit of the Ninja grammar) -- a run
// of 1-3 consecutive lines is duplicated elsewhere, deleted, or moved, or a line's indentation is toggled -- so
// that declarations with their indented bindings get repeated, reordered and orphaned; the other half is
// libFuzzer's byte-level mutation.
extern "C" size_t LLVMFuzzerMutate(uint8_t* data, size_t size, size_t maxSize);
extern "C" size_t LLVMFuzzerCustomMutator(uint8_t* data, size_t size, size_t maxSize, unsigned int seed) {
  uint64_t s = seed * 6364136223846793005ULL + 1442695040888963407ULL;
  auto rnd = [&s](size_t n) { s = s * 6364136223846793005ULL + 1442695040888963407ULL; return n ? (size_t)((s >> 33) % n) : 0; };
  if (size == 0 || rnd(2) == 0) return LLVMFuzzerMutate(data, size, maxSize);
  std::vector<std::string> lines;
  {
    std::string cur;
    for (size_t i = 0; i < size; ++i) {
      cur.push_back((char)data[i]);
      if (data[i] == '\n' || data[i] == 0x1c) { lines.push_back(cur); cur.clear(); }
    }
    if (!cur.empty()) lines.push_back(cur);
  }
  if (lines.empty()) return LLVMFuzzerMutate(data, size, maxSize);
  size_t from = rnd(lines.size());
  size_t len = 1 + rnd(3);
  if (from + len > lines.size()) len = lines.size() - from;
  std::vector<std::string> run(lines.begin() + from, lines.begin() + from + len);
  switch (rnd(4)) {
  case 0: {   // duplicate the run somewhere
    size_t to = rnd(lines.size() + 1);
    if (!run.back().empty() && run.back().back() != '\n') run.back().push_back('\n');
    lines.insert(lines.begin() + to, run.begin(), run.end());
    break;
  }
  case 1:     // delete the run
    if (lines.size() > len) lines.erase(lines.begin() + from, lines.begin() + from + len);
    break;
  case 2: {   // move the run
    lines.erase(lines.begin() + from, lines.begin() + from + len);
    size_t to = rnd(lines.size() + 1);
    lines.insert(lines.begin() + to, run.begin(), run.end());
    break;
  }
  default: {  // toggle the indentation of one line
    std::string& l = lines[from];
    if (!l.empty() && l[0] == ' ') l.erase(0, l.find_first_not_of(' ') == std::string::npos ? l.size() : l.find_first_not_of(' '));
    else l.insert(0, "  ");
  }
  }
  std::string out;
  for (auto& l : lines) out += l;
  if (out.size() > maxSize) out.resize(maxSize);
  memcpy(data, out.data(), out.size());
  return out.size();
}
