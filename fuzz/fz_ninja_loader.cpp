// C19 target 2: the Ninja manifest loader over an in-memory file table.
#include "fz_common.h"
#include "llbuild/Ninja/Manifest.h"
#include "llbuild/Ninja/ManifestLoader.h"
#include "llbuild/Ninja/Lexer.h"
#include "llvm/Support/MemoryBuffer.h"
#include <map>
#include <vector>
using namespace llbuild;
using namespace llbuild::ninja;
FZ_DEFINE_STATS("ninja_loader")

namespace {
// A MemoryBuffer over an exact-size heap block without NUL terminator.
class ExactMemBuffer : public llvm::MemoryBuffer {
  char* mem;
  std::string name;
public:
  ExactMemBuffer(const std::string& contents, const std::string& name) : name(name) {
    mem = (char*)malloc(contents.size() ? contents.size() : 1);
    memcpy(mem, contents.data(), contents.size());
    init(mem, mem + contents.size(), /*RequiresNullTerminator=*/false);
  }
  ~ExactMemBuffer() override { free(mem); }
  StringRef getBufferIdentifier() const override { return name; }
  BufferKind getBufferKind() const override { return MemoryBuffer_Malloc; }
};

struct Actions : ManifestLoaderActions {
  std::map<std::string, std::string> files;
  unsigned depth = 0, reads = 0;
  void initialize(ManifestLoader*) override {}
  void error(StringRef, StringRef, const Token&) override { gStats.errors++; }
  std::unique_ptr<llvm::MemoryBuffer> readFile(StringRef path, StringRef, const Token*) override {
    // a client may refuse a file: bound the include nesting / count so that a
    // self-including table is a clean error rather than unbounded recursion
    // (recorded separately, see DESIGN section 4)
    if (++reads > 200) { gStats.skipped++; return nullptr; }
    std::string p = path.str();
    auto slash = p.rfind('/');
    std::string base = slash == std::string::npos ? p : p.substr(slash + 1);
    auto it = files.find(base);
    if (it == files.end()) return nullptr;
    return std::unique_ptr<llvm::MemoryBuffer>(new ExactMemBuffer(it->second, base));
  }
};
}

extern "C" int LLVMFuzzerTestOneInput(const uint8_t* data, size_t size) {
  if (size > 65536) return 0;
  gStats.execs++;
  // File table: the input is split at 0x1c bytes into main, a.ninja, b.ninja, c.ninja
  Actions actions;
  const char* names[4] = {"build.ninja", "a.ninja", "b.ninja", "c.ninja"};
  size_t start = 0, idx = 0;
  for (size_t i = 0; i <= size && idx < 4; ++i) {
    if (i == size || data[i] == 0x1c) {
      actions.files[names[idx++]] = std::string((const char*)data + start, i - start);
      start = i + 1;
    }
  }
  ManifestLoader loader("/wd", "build.ninja", actions);
  auto manifest = loader.load();
  if (manifest && !manifest->getCommands().empty()) gStats.nontrivial++;
  if (manifest) {
    // touch every loaded string so that dangling references are visible to ASan
    size_t total = 0;
    for (auto* c : manifest->getCommands()) {
      total += c->getCommandString().size() + c->getDescription().size() + c->getDepsFile().size();
      for (auto* n : c->getOutputs()) total += n->getScreenPath().size();
      for (auto* n : c->getInputs()) total += n->getScreenPath().size();
    }
    gStats.callbacks += total != (size_t)-1;
  }
  return 0;
}
