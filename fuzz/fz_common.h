// Shared helpers for the libFuzzer targets (C19).
#pragma once
#include <cstdint>
#include <cstdio>
#include <cstdlib>
#include <cstring>
#include <string>

// Exact-size heap copy, no terminator: a one-past-the-end read is an ASan error.
struct ExactBuffer {
  char* p;
  size_t n;
  ExactBuffer(const uint8_t* d, size_t n) : p((char*)malloc(n ? n : 1)), n(n) {
    if (n) memcpy(p, d, n);
  }
  ~ExactBuffer() { free(p); }
  const char* begin() const { return p; }
  const char* end() const { return p + n; }
  bool contains(const char* q, size_t len) const { return q >= p && q + len <= p + n; }
};

// Counters are flushed to $FZ_STATS (one line per process) at exit and before a trap.
struct FzStats {
  unsigned long execs = 0, nontrivial = 0, errors = 0, callbacks = 0, ends_in_escape = 0, skipped = 0;
  const char* name = "?";
  void flush() {
    const char* path = getenv("FZ_STATS");
    if (!path) return;
    FILE* f = fopen(path, "a");
    if (!f) return;
    fprintf(f, "%s execs=%lu nontrivial=%lu errors=%lu callbacks=%lu ends_in_escape=%lu skipped=%lu\n", name,
            execs, nontrivial, errors, callbacks, ends_in_escape, skipped);
    fclose(f);
  }
};
extern FzStats gStats;
#define FZ_DEFINE_STATS(nm)                                                    \
  FzStats gStats;                                                              \
  static struct FzInit { FzInit() { gStats.name = nm; atexit([] { gStats.flush(); }); } } gFzInit;

#define FZ_ORACLE(cond, ...)                                                   \
  do {                                                                         \
    if (!(cond)) {                                                             \
      fprintf(stderr, "ORACLE VIOLATION: " __VA_ARGS__);                       \
      fprintf(stderr, "\n");                                                   \
      gStats.flush();                                                          \
      __builtin_trap();                                                        \
    }                                                                          \
  } while (0)
