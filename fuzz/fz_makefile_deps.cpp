// C19 target 3: Makefile-style dependency files.
#include "fz_common.h"
#include "llbuild/Core/MakefileDepsParser.h"
using namespace llbuild;
using namespace llbuild::core;
FZ_DEFINE_STATS("makefile_deps")

namespace {
struct Actions : MakefileDepsParser::ParseActions {
  const ExactBuffer& buf;
  size_t calls = 0;
  bool any = false;
  explicit Actions(const ExactBuffer& b) : buf(b) {}
  void check(StringRef raw) {
    calls++;
    FZ_ORACLE(calls <= 2 * buf.n + 4, "parser callbacks exceed 2*size+4 (no progress?)");
    FZ_ORACLE(buf.contains(raw.data(), raw.size()), "callback carries a StringRef outside the buffer");
  }
  void error(StringRef, uint64_t position) override {
    gStats.errors++;
    calls++;
    FZ_ORACLE(calls <= 2 * buf.n + 4, "parser callbacks exceed 2*size+4 (no progress?)");
    FZ_ORACLE(position <= buf.n, "error position %llu beyond the buffer", (unsigned long long)position);
  }
  void actOnRuleStart(StringRef name, StringRef) override { check(name); any = true; }
  void actOnRuleDependency(StringRef dep, StringRef) override { check(dep); any = true; }
  void actOnRuleEnd() override { calls++; }
};
}

extern "C" int LLVMFuzzerTestOneInput(const uint8_t* data, size_t size) {
  if (size < 1 || size > 65536) return 0;
  gStats.execs++;
  bool ignoreSubsequent = data[0] & 1;
  ExactBuffer buf(data + 1, size - 1);
  Actions actions(buf);
  MakefileDepsParser(StringRef(buf.p, buf.n), actions, ignoreSubsequent).parse();
  if (actions.any) gStats.nontrivial++;
  if (buf.n && buf.p[buf.n - 1] == '\\') gStats.ends_in_escape++;
  return 0;
}
