// C19 target 1: the Ninja lexer, with an in-target tiling / EOF / termination oracle.
#include "fz_common.h"
#include "llbuild/Ninja/Lexer.h"
#include <cctype>
#include <vector>
using namespace llbuild;
using namespace llbuild::ninja;
FZ_DEFINE_STATS("ninja_lexer")

static bool skippable(const char* p, const char* e, const char*& next) {
  // bytes the lexer is specified to skip between tokens: blanks and "$\n" / "$\r\n"
  unsigned char c = (unsigned char)*p;
  if (c != '\n' && c != '\r' && isspace(c)) { next = p + 1; return true; }
  // "$" + newline, where the lexer (like its getNextChar) takes "\n\r" and "\r\n" as ONE newline
  if (c == '$' && p + 1 < e && p[1] == '\n') { next = (p + 2 < e && p[2] == '\r') ? p + 3 : p + 2; return true; }
  if (c == '$' && p + 2 < e && p[1] == '\r' && p[2] == '\n') { next = p + 3; return true; }
  return false;
}

extern "C" int LLVMFuzzerTestOneInput(const uint8_t* data, size_t size) {
  if (size < 1 || size > 65536) return 0;
  gStats.execs++;
  // first byte: mode policy. 0-3 = fixed mode; >=4 = mode switches per token from the
  // low bits of a rolling hash (the parser switches modes between tokens as well).
  unsigned policy = data[0] % 8;
  ExactBuffer buf(data + 1, size - 1);
  Lexer lexer(StringRef(buf.p, buf.n));
  const Lexer::LexingMode modes[4] = {Lexer::LexingMode::None, Lexer::LexingMode::IdentifierSpecific,
                                      Lexer::LexingMode::PathString, Lexer::LexingMode::VariableString};
  const char* prevEnd = buf.begin();
  size_t calls = 0;
  unsigned roll = policy;
  bool sawNonTrivial = false;
  for (;;) {
    lexer.setMode(policy < 4 ? modes[policy] : modes[(roll = roll * 31 + 7) >> 3 & 3]);
    Token tok;
    lexer.lex(tok);
    calls++;
    FZ_ORACLE(calls <= buf.n + 2, "lexer did not terminate within size+2 calls");
    FZ_ORACLE(buf.contains(tok.start, tok.length) || (tok.start == buf.end() && tok.length == 0),
              "token [%p,+%u) outside the buffer", (const void*)tok.start, tok.length);
    FZ_ORACLE(tok.start >= prevEnd, "token overlaps the previous one");
    for (const char* p = prevEnd; p < tok.start;) {
      const char* next;
      FZ_ORACLE(skippable(p, buf.end(), next), "gap before token at offset %ld contains byte 0x%02x",
                (long)(p - buf.begin()), (unsigned char)*p);
      p = next;
    }
    if (tok.tokenKind == Token::Kind::EndOfFile) {
      FZ_ORACLE(tok.start == buf.end(), "EndOfFile reported at offset %ld of %zu", (long)(tok.start - buf.begin()),
                buf.n);
      break;
    }
    FZ_ORACLE(tok.length > 0, "empty non-EOF token at offset %ld", (long)(tok.start - buf.begin()));
    if (tok.tokenKind != Token::Kind::Unknown) sawNonTrivial = true;
    prevEnd = tok.start + tok.length;
  }
  if (sawNonTrivial) gStats.nontrivial++;
  if (buf.n && buf.p[buf.n - 1] == '$') gStats.ends_in_escape++;
  return 0;
}
