# Executors and targets; each is guarded by flavour.
verif_exe(enginesim enginesim.cpp)
target_link_libraries(enginesim PRIVATE libllbuild)

if(VERIF_FLAVOUR STREQUAL "asan")
  foreach(fz ninja_lexer ninja_loader makefile_deps depinfo buildfile)
    verif_exe(fz_${fz} ${CMAKE_CURRENT_SOURCE_DIR}/../fuzz/fz_${fz}.cpp)
    target_include_directories(fz_${fz} PRIVATE ${CMAKE_CURRENT_SOURCE_DIR}/../fuzz)
    target_link_options(fz_${fz} PRIVATE -fsanitize=fuzzer)
  endforeach()
endif()

verif_exe(valtool valtool.cpp)

verif_exe(bsx bsx.cpp)
add_executable(vtool vtool.c)

verif_exe(ninjadump ninjadump.cpp)

add_library(killshim SHARED killshim.c)
target_link_libraries(killshim PRIVATE dl)

verif_exe(qsim qsim.cpp)
add_executable(childsim childsim.c)
