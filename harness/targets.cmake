# Executors and targets; each is guarded by flavour.
verif_exe(enginesim enginesim.cpp)
target_link_libraries(enginesim PRIVATE libllbuild)
