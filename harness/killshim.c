/* killshim.so -- LD_PRELOAD fault injector for C04.
 * Counts the system calls that touch the build database or its journal
 * (paths starting with $VERIF_KILL_PATH) and delivers SIGKILL to the process
 * BEFORE call number $VERIF_KILL_AT (1-based). Without VERIF_KILL_AT it only
 * counts and writes the total to $VERIF_KILL_COUNT_FILE at exit. */
#define _GNU_SOURCE
#include <dlfcn.h>
#include <fcntl.h>
#include <signal.h>
#include <stdarg.h>
#include <stdio.h>
#include <stdlib.h>
#include <string.h>
#include <sys/types.h>
#include <unistd.h>

static long g_count = 0;
static long g_kill_at = -1;
static const char* g_prefix = NULL;
static int g_init = 0;

static void init(void) {
  if (g_init) return;
  g_init = 1;
  g_prefix = getenv("VERIF_KILL_PATH");
  const char* k = getenv("VERIF_KILL_AT");
  if (k) g_kill_at = atol(k);
}

static int path_matches(const char* p) {
  init();
  return g_prefix && p && strncmp(p, g_prefix, strlen(g_prefix)) == 0;
}

static int fd_matches(int fd) {
  init();
  if (!g_prefix) return 0;
  char link[64], buf[4096];
  snprintf(link, sizeof link, "/proc/self/fd/%d", fd);
  ssize_t n = readlink(link, buf, sizeof buf - 1);
  if (n <= 0) return 0;
  buf[n] = 0;
  return strncmp(buf, g_prefix, strlen(g_prefix)) == 0;
}

static void tick(const char* what) {
  g_count++;
  if (g_kill_at > 0 && g_count == g_kill_at) {
    (void)what;
    kill(getpid(), SIGKILL);
    for (;;) pause();
  }
}

__attribute__((destructor)) static void fini(void) {
  const char* f = getenv("VERIF_KILL_COUNT_FILE");
  if (!f) return;
  FILE* fp = fopen(f, "w");
  if (!fp) return;
  fprintf(fp, "%ld\n", g_count);
  fclose(fp);
}

#define NEXT(name) static __typeof__(name)* real = NULL; if (!real) real = (__typeof__(name)*)dlsym(RTLD_NEXT, #name)

ssize_t write(int fd, const void* b, size_t n) { NEXT(write); if (fd > 2 && fd_matches(fd)) tick("write"); return real(fd, b, n); }
ssize_t pwrite(int fd, const void* b, size_t n, off_t o) { NEXT(pwrite); if (fd_matches(fd)) tick("pwrite"); return real(fd, b, n, o); }
ssize_t pwrite64(int fd, const void* b, size_t n, off64_t o) { NEXT(pwrite64); if (fd_matches(fd)) tick("pwrite64"); return real(fd, b, n, o); }
int fsync(int fd) { NEXT(fsync); if (fd_matches(fd)) tick("fsync"); return real(fd); }
int fdatasync(int fd) { NEXT(fdatasync); if (fd_matches(fd)) tick("fdatasync"); return real(fd); }
int ftruncate(int fd, off_t l) { NEXT(ftruncate); if (fd_matches(fd)) tick("ftruncate"); return real(fd, l); }
int ftruncate64(int fd, off64_t l) { NEXT(ftruncate64); if (fd_matches(fd)) tick("ftruncate64"); return real(fd, l); }
int unlink(const char* p) { NEXT(unlink); if (path_matches(p)) tick("unlink"); return real(p); }
int rename(const char* a, const char* b) { NEXT(rename); if (path_matches(a) || path_matches(b)) tick("rename"); return real(a, b); }
int open(const char* p, int flags, ...) {
  NEXT(open);
  mode_t mode = 0;
  if (flags & (O_CREAT | O_TMPFILE)) { va_list ap; va_start(ap, flags); mode = va_arg(ap, mode_t); va_end(ap); }
  if ((flags & O_CREAT) && path_matches(p)) tick("open-creat");
  return real(p, flags, mode);
}
int open64(const char* p, int flags, ...) {
  NEXT(open64);
  mode_t mode = 0;
  if (flags & (O_CREAT | O_TMPFILE)) { va_list ap; va_start(ap, flags); mode = va_arg(ap, mode_t); va_end(ap); }
  if ((flags & O_CREAT) && path_matches(p)) tick("open64-creat");
  return real(p, flags, mode);
}
