// qsim -- drives LaneBasedExecutionQueue / SerialQueue with a generated job mix and
// prints a totally ordered event log (one line per event, sequence number first).
//
// script (stdin):
//   queue kind=<lane|serial> lanes=<n> alg=<fifo|prio>
//   job <id> prio=<h|n> dur=<us> adds=<id;id|-> proc=<behaviour|-> exe=<path|-> env=<K=V;K=V|-> inherit=<0|1>
//       control=<0|1> interrupt=<0|1> wd=<path|-> fds=<k|-1>
//       (fds=k: the launch happens while the process has only k free file descriptors left)
//   submit <id>
//   cancel jobs=<n>          (cancelAllJobs when the n-th job body has started)
//   nowait                   (destroy the queue right after the submits: the destructor must drain it)
//   cancel usec=<n>          (cancelAllJobs from a thread of its own, n microseconds after the submits)
//   job ... bigenv=<k>       (k extra environment entries: forming the environment takes a while, which widens
//                             the window between the queue's cancelled check and the actual spawn)
//   end
#include "llbuild/Basic/ExecutionQueue.h"
#include "llbuild/Basic/Subprocess.h"
#include "llvm/ADT/ArrayRef.h"
#include "llvm/ADT/SmallString.h"
#include "llvm/ADT/Twine.h"
#include "llvm/Support/raw_ostream.h"

#include <atomic>
#include <chrono>
#include <condition_variable>
#include <cstdio>
#include <cstdlib>
#include <iostream>
#include <map>
#include <mutex>
#include <sstream>
#include <string>
#include <sys/resource.h>
#include <sys/wait.h>
#include <thread>
#include <unistd.h>
#include <vector>

using namespace llbuild;
using namespace llbuild::basic;

static std::mutex gOut;
static unsigned long gSeq = 0;
static std::string hex(StringRef s) {
  if (s.empty()) return "-";
  static const char* d = "0123456789abcdef";
  std::string r;
  for (unsigned char c : s) { r.push_back(d[c >> 4]); r.push_back(d[c & 15]); }
  return r;
}
static void out(const std::string& s) {
  std::lock_guard<std::mutex> g(gOut);
  printf("%lu %s\n", ++gSeq, s.c_str());
  fflush(stdout);
}
static std::vector<std::string> split(const std::string& s, char sep) {
  std::vector<std::string> r;
  std::string cur;
  for (char c : s) { if (c == sep) { r.push_back(cur); cur.clear(); } else cur.push_back(c); }
  r.push_back(cur);
  return r;
}
static std::string opt(const std::vector<std::string>& t, const std::string& name, const std::string& def) {
  for (auto& x : t)
    if (x.size() > name.size() && x.compare(0, name.size(), name) == 0 && x[name.size()] == '=')
      return x.substr(name.size() + 1);
  return def;
}

struct JobSpec : JobDescriptor {
  std::string id, proc, exe, wd;
  bool high = false, inherit = true, control = true, interrupt = true, console = false;
  int dur = 0, fds = -1, bigenv = 0;
  std::vector<std::string> adds;
  std::vector<std::pair<std::string, std::string>> env;
  StringRef getOrdinalName() const override { return id; }
  void getShortDescription(SmallVectorImpl<char>& r) const override { llvm::raw_svector_ostream(r) << id; }
  void getVerboseDescription(SmallVectorImpl<char>& r) const override { llvm::raw_svector_ostream(r) << id; }
};

static std::map<std::string, JobSpec*> gJobs;
static ExecutionQueue* gQueue = nullptr;
static std::atomic<int> gStarted{0}, gLaunches{0}, gCompletions{0}, gBodiesDone{0}, gSubmitted{0};
static int gCancelAt = -1;
static bool gNoWait = false;
static int gCancelUsec = -1;
static std::mutex gDoneMutex;
static std::condition_variable gDoneCv;
static std::string gChild;

struct Delegate : ExecutionQueueDelegate {
  void queueJobStarted(JobDescriptor*) override {}
  void queueJobFinished(JobDescriptor*) override {}
  void processStarted(ProcessContext* ctx, ProcessHandle h, llbuild_pid_t pid) override {
    out("proc-started " + ((JobSpec*)ctx)->id + " " + std::to_string((long)pid));
  }
  void processHadError(ProcessContext* ctx, ProcessHandle, const Twine& m) override {
    out("proc-error " + ((JobSpec*)ctx)->id + " " + hex(m.str()));
  }
  void processHadOutput(ProcessContext* ctx, ProcessHandle, StringRef d) override {
    // compress runs: <char><count>...
    std::string s;
    for (size_t i = 0; i < d.size();) {
      size_t j = i;
      while (j < d.size() && d[j] == d[i]) ++j;
      char b[32];
      snprintf(b, sizeof b, "%02x*%zu.", (unsigned char)d[i], j - i);
      s += b;
      i = j;
    }
    out("proc-output " + ((JobSpec*)ctx)->id + " " + s);
  }
  void processFinished(ProcessContext* ctx, ProcessHandle, const ProcessResult& r) override {
    out("proc-finished " + ((JobSpec*)ctx)->id + " " + std::to_string(int(r.status)) + " " + std::to_string(r.exitCode));
  }
};

static void submit(JobSpec* j);

static void body(JobSpec* j, QueueJobContext* ctx) {
  int n = ++gStarted;
  out("job-start " + j->id + " lane=" + std::to_string(ctx->laneID()));
  if (gCancelAt > 0 && n == gCancelAt) {
    out("cancel-issued");
    gQueue->cancelAllJobs();
    out("cancel-returned");
  }
  if (j->dur) std::this_thread::sleep_for(std::chrono::microseconds(j->dur));
  for (auto& a : j->adds)
    if (gJobs.count(a)) submit(gJobs[a]);
  if (j->proc != "-") {
    ++gLaunches;
    std::vector<std::string> args{j->exe == "-child" ? gChild : j->exe, j->proc};
    std::vector<StringRef> argv(args.begin(), args.end());
    std::vector<std::pair<StringRef, StringRef>> env;
    for (auto& e : j->env) env.push_back({e.first, e.second});
    std::vector<std::string> bigKeys;
    bigKeys.reserve(j->bigenv);
    for (int i = 0; i < j->bigenv; ++i) bigKeys.push_back("VERIF_BIG_" + std::to_string(i));
    for (auto& k : bigKeys) env.push_back({k, "x"});
    ProcessAttributes attr{j->interrupt};
    attr.inheritEnvironment = j->inherit;
    attr.controlEnabled = j->control;
    attr.connectToConsole = j->console;
    if (j->wd != "-") attr.workingDir = j->wd;
    std::string id = j->id;
    std::vector<int> hog;
    if (j->fds >= 0) {
      // descriptor exhaustion: take every free descriptor, then give k back
      for (;;) { int fd = dup(0); if (fd < 0) break; hog.push_back(fd); }
      for (int i = 0; i < j->fds && !hog.empty(); ++i) { close(hog.back()); hog.pop_back(); }
    }
    out("launch " + id);
    ProcessCompletionFn done = [id](ProcessResult r) {
      out("completion " + id + " " + std::to_string(int(r.status)) + " " + std::to_string(r.exitCode));
      ++gCompletions;
      std::lock_guard<std::mutex> l(gDoneMutex);
      gDoneCv.notify_all();
    };
    gQueue->executeProcess(ctx, ArrayRef<StringRef>(argv.data(), argv.size()),
                           ArrayRef<std::pair<StringRef, StringRef>>(env.data(), env.size()), attr,
                           llvm::Optional<ProcessCompletionFn>(done), nullptr);
    for (int fd : hog) close(fd);
  }
  out("job-end " + j->id);
  ++gBodiesDone;
  std::lock_guard<std::mutex> l(gDoneMutex);
  gDoneCv.notify_all();
}

static void submit(JobSpec* j) {
  ++gSubmitted;
  out("submit " + j->id);
  gQueue->addJob(QueueJob{j, [j](QueueJobContext* ctx) { body(j, ctx); }},
                 j->high ? QueueJobPriority::High : QueueJobPriority::Normal);
}

int main(int argc, char** argv) {
  gChild = argc > 1 ? argv[1] : "childsim";
  setenv("LLBUILD_TEST", "1", 1);   // 1 s SIGKILL escalation instead of 10 s
  std::string line, kind = "lane", alg = "fifo";
  int lanes = 2;
  std::vector<std::string> submits;
  while (std::getline(std::cin, line)) {
    auto t = split(line, ' ');
    if (t[0] == "queue") {
      kind = opt(t, "kind", kind);
      lanes = atoi(opt(t, "lanes", "2").c_str());
      alg = opt(t, "alg", alg);
    } else if (t[0] == "job") {
      auto* j = new JobSpec;
      j->id = t[1];
      j->high = opt(t, "prio", "n") == "h";
      j->dur = atoi(opt(t, "dur", "0").c_str());
      std::string adds = opt(t, "adds", "-");
      if (adds != "-") j->adds = split(adds, ';');
      j->proc = opt(t, "proc", "-");
      j->exe = opt(t, "exe", "-child");
      j->wd = opt(t, "wd", "-");
      j->inherit = opt(t, "inherit", "1") == "1";
      j->control = opt(t, "control", "1") == "1";
      j->interrupt = opt(t, "interrupt", "1") == "1";
      j->console = opt(t, "console", "0") == "1";   // connectToConsole (the child must then print nothing)
      j->fds = atoi(opt(t, "fds", "-1").c_str());
      j->bigenv = atoi(opt(t, "bigenv", "0").c_str());
      if (j->fds >= 0) {
        struct rlimit rl;
        getrlimit(RLIMIT_NOFILE, &rl);
        if (rl.rlim_cur > 64) { rl.rlim_cur = 64; setrlimit(RLIMIT_NOFILE, &rl); }
      }
      std::string env = opt(t, "env", "-");
      if (env != "-")
        for (auto& kv : split(env, ';')) {
          auto p = kv.find('=');
          if (p != std::string::npos) j->env.push_back({kv.substr(0, p), kv.substr(p + 1)});
        }
      gJobs[j->id] = j;
    } else if (t[0] == "submit") {
      submits.push_back(t[1]);
    } else if (t[0] == "cancel") {
      gCancelAt = atoi(opt(t, "jobs", "-1").c_str());
      gCancelUsec = atoi(opt(t, "usec", "-1").c_str());
    } else if (t[0] == "nowait") {
      gNoWait = true;
    } else if (t[0] == "end") {
      break;
    }
  }
  Delegate delegate;
  {
    std::unique_ptr<ExecutionQueue> q;
    if (kind == "serial") q = createSerialQueue(delegate, nullptr);
    else q.reset(createLaneBasedExecutionQueue(delegate, lanes, alg == "prio" ? SchedulerAlgorithm::NamePriority
                                                                             : SchedulerAlgorithm::FIFO,
                                               getDefaultQualityOfService(), nullptr));
    gQueue = q.get();
    out("queue-created kind=" + kind + " lanes=" + std::to_string(lanes));
    for (auto& s : submits)
      if (gJobs.count(s)) submit(gJobs[s]);
    std::thread canceller;
    if (gCancelUsec >= 0) {
      canceller = std::thread([] {
        std::this_thread::sleep_for(std::chrono::microseconds(gCancelUsec));
        out("cancel-issued");
        gQueue->cancelAllJobs();
        out("cancel-returned");
      });
    }
    // like the build engine, wait for every submitted body and every launched process
    if (!gNoWait) {
      std::unique_lock<std::mutex> l(gDoneMutex);
      gDoneCv.wait(l, [] { return gBodiesDone.load() == gSubmitted.load() && gCompletions.load() >= gLaunches.load(); });
    }
    out(std::string(gNoWait ? "not-waiting" : "all-reported") + " bodies=" + std::to_string(gBodiesDone.load()) + " launches=" + std::to_string(gLaunches.load()) +
        " completions=" + std::to_string(gCompletions.load()));
    if (canceller.joinable()) canceller.join();
    out("destroying");
  }
  gQueue = nullptr;
  out("queue-destroyed");
  // no child of ours may be left (alive or zombie)
  int status;
  pid_t p = waitpid(-1, &status, WNOHANG);
  out(std::string("children ") + (p == -1 ? "none" : p == 0 ? "alive" : "zombie"));
  return 0;
}
