// bsx -- a minimal front end over BuildSystemFrontend (the code path of
// `llbuild buildsystem build`) that can build a target OR a single node, can wrap
// the file system in a recording decorator (logs remove(), can veto deletion),
// and prints delegate events, one per line, on stdout:
//   started <cmd>   finished <cmd> <status>   error <cmd> <hex>   note/warning <cmd> <hex>
//   needs <key hex> <reason>   remove <path hex> <result>   cycle ...   result <0|1>
//
// usage: bsx [--chdir D] [-f FILE] [--db PATH|--no-db] [--serial|-j N]
//            [--fs default|device-agnostic|checksum-only] [--record-fs] [--pretend-remove]
//            [--node NAME | TARGET]
//        bsx ... --interactive : ONE BuildSystemFrontend for several builds (the supported client
//            workflow: initialize() resets and reuses the system). Reads lines from stdin --
//            "build <target hex|->", "node <name hex>", "quit" -- and prints "end" after each result.
#include "llbuild/Basic/FileSystem.h"
#include "llbuild/BuildSystem/BuildSystemFrontend.h"
#include "llbuild/BuildSystem/Command.h"
#include "llbuild/BuildSystem/Tool.h"
#include "llbuild/Core/BuildEngine.h"
#include "llvm/Support/SourceMgr.h"
#include "llvm/Support/MemoryBuffer.h"

#include <cstdio>
#include <iostream>
#include <mutex>
#include <string>
#include <unistd.h>
#include <vector>

using namespace llbuild;
using namespace llbuild::basic;
using namespace llbuild::buildsystem;

static std::mutex gOut;
static bool gDry = false, gPrintSignatures = false, gKeepGoing = false;
static std::string hex(StringRef s) {
  if (s.empty()) return "-";
  static const char* d = "0123456789abcdef";
  std::string r;
  for (unsigned char c : s) { r.push_back(d[c >> 4]); r.push_back(d[c & 15]); }
  return r;
}
static void out(const std::string& s) {
  std::lock_guard<std::mutex> g(gOut);
  fputs(s.c_str(), stdout);
  fputc('\n', stdout);
  fflush(stdout);
}

namespace {
class RecordingFS : public FileSystem {
  std::unique_ptr<FileSystem> impl;
  bool pretend;
public:
  RecordingFS(std::unique_ptr<FileSystem> fs, bool pretend) : impl(std::move(fs)), pretend(pretend) {}
  bool createDirectory(const std::string& p) override { return impl->createDirectory(p); }
  bool createDirectories(const std::string& p) override { return impl->createDirectories(p); }
  std::unique_ptr<llvm::MemoryBuffer> getFileContents(const std::string& p) override {
    return impl->getFileContents(p);
  }
  bool remove(const std::string& p) override {
    bool r = pretend ? true : impl->remove(p);
    out("remove " + hex(p) + " " + (r ? "1" : "0"));
    return r;
  }
  FileChecksum getFileChecksum(const std::string& p) override { return impl->getFileChecksum(p); }
  FileInfo getFileInfo(const std::string& p) override { return impl->getFileInfo(p); }
  FileInfo getLinkInfo(const std::string& p) override { return impl->getLinkInfo(p); }
  bool createSymlink(const std::string& s, const std::string& t) override { return impl->createSymlink(s, t); }
};

class Delegate : public BuildSystemFrontendDelegate {
public:
  Delegate(llvm::SourceMgr& sm) : BuildSystemFrontendDelegate(sm, "basic", 0) {}
  void hadCommandFailure() override {
    BuildSystemFrontendDelegate::hadCommandFailure();
    out("failure");
    // the stock command line front end cancels the build at the first failure; a client may
    // also let independent work continue (--keep-going)
    if (!gKeepGoing) cancel();
  }
  std::unique_ptr<Tool> lookupTool(StringRef) override { return nullptr; }
  void cycleDetected(const std::vector<core::Rule*>& cycle) override {
    std::string s = "cycle";
    for (auto* r : cycle) s += " " + hex(r->key.str());
    out(s);
  }
  void error(StringRef filename, const Token& at, const Twine& message) override {
    out("diag " + hex(message.str()));
    BuildSystemFrontendDelegate::error(filename, at, message);
  }
  void commandPreparing(Command* c) override {
    if (gPrintSignatures) out("sig " + hex(c->getName()) + " " + std::to_string(c->getSignature().value));
    BuildSystemFrontendDelegate::commandPreparing(c);
  }
  bool shouldCommandStart(Command* c) override {
    if (gDry) return false;
    return BuildSystemFrontendDelegate::shouldCommandStart(c);
  }
  void commandStarted(Command* c) override {
    out("started " + hex(c->getName()));
  }
  void commandFinished(Command* c, ProcessStatus st) override {
    out("finished " + hex(c->getName()) + " " + std::to_string(int(st)));
  }
  void commandHadError(Command* c, StringRef d) override {
    out("error " + hex(c->getName()) + " " + hex(d));
    BuildSystemFrontendDelegate::commandHadError(c, d);
  }
  void commandHadNote(Command* c, StringRef d) override { out("note " + hex(c->getName()) + " " + hex(d)); }
  void commandHadWarning(Command* c, StringRef d) override { out("warning " + hex(c->getName()) + " " + hex(d)); }
  void commandCannotBuildOutputDueToMissingInputs(Command* c, Node* output, ArrayRef<BuildKey> inputs) override {
    out("missing-inputs " + hex(c->getName()));
    BuildSystemFrontendDelegate::commandCannotBuildOutputDueToMissingInputs(c, output, inputs);
  }
  void commandProcessHadOutput(Command* c, ProcessHandle, StringRef data) override {
    out("output " + hex(c->getName()) + " " + hex(data));
  }
  void commandProcessHadError(Command* c, ProcessHandle, const Twine& m) override {
    out("process-error " + hex(c->getName()) + " " + hex(m.str()));
  }
  void determinedRuleNeedsToRun(core::Rule* r, core::Rule::RunReason reason, core::Rule* input) override {
    out("needs " + hex(r->key.str()) + " " + std::to_string(int(reason)) + " " +
        (input ? hex(input->key.str()) : std::string("-")));
  }
};
}

int main(int argc, char** argv) {
  std::vector<std::string> args(argv + 1, argv + argc);
  std::string fsMode = "default", node;
  bool record = false, pretend = false, interactive = false;
  std::vector<std::string> rest;
  for (size_t i = 0; i < args.size(); ++i) {
    if (args[i] == "--fs") fsMode = args[++i];
    else if (args[i] == "--record-fs") record = true;
    else if (args[i] == "--pretend-remove") { record = true; pretend = true; }
    else if (args[i] == "--node") node = args[++i];
    else if (args[i] == "--dry") gDry = true;
    else if (args[i] == "--interactive") interactive = true;
    else if (args[i] == "--keep-going") gKeepGoing = true;
    else if (args[i] == "--print-signatures") gPrintSignatures = true;
    else rest.push_back(args[i]);
  }
  llvm::SourceMgr sourceMgr;
  BuildSystemInvocation invocation{};
  invocation.dbPath = "build.db";
  invocation.buildFilePath = "build.llbuild";
  invocation.parse(rest, sourceMgr);
  if (invocation.hadErrors || invocation.showUsage) { fprintf(stderr, "bsx: bad arguments\n"); return 2; }
  std::unique_ptr<FileSystem> fs = createLocalFileSystem();
  if (fsMode == "device-agnostic") fs = DeviceAgnosticFileSystem::from(std::move(fs));
  else if (fsMode == "checksum-only") fs = ChecksumOnlyFileSystem::from(std::move(fs));
  if (record) fs.reset(new RecordingFS(std::move(fs), pretend));
  Delegate delegate(sourceMgr);
  BuildSystemFrontend frontend(delegate, invocation, std::move(fs));
  if (interactive) {
    auto unhex = [](const std::string& h) {
      std::string r;
      if (h == "-") return r;
      for (size_t i = 0; i + 1 < h.size(); i += 2) r.push_back(char(std::stoi(h.substr(i, 2), nullptr, 16)));
      return r;
    };
    std::string line;
    while (std::getline(std::cin, line)) {
      auto sp = line.find(' ');
      std::string verb = line.substr(0, sp), arg = sp == std::string::npos ? "-" : line.substr(sp + 1);
      if (verb == "quit") break;
      bool ok = false;
      if (verb == "node") ok = frontend.buildNode(unhex(arg));
      else if (verb == "build") ok = frontend.build(unhex(arg));
      else { out("bad-request"); continue; }
      out(std::string("result ") + (ok ? "1" : "0") + " failed=" + std::to_string(delegate.getNumFailedCommands()));
      out("end");
    }
    return 0;
  }
  bool ok;
  if (!node.empty()) ok = frontend.buildNode(node);
  else ok = frontend.build(invocation.positionalArgs.empty() ? "" : invocation.positionalArgs[0]);
  out(std::string("result ") + (ok ? "1" : "0") + " failed=" + std::to_string(delegate.getNumFailedCommands()));
  return ok ? 0 : 1;
}
