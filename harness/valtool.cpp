// valtool -- a line-oriented server exposing llbuild's pure value-level functions
// to the Python property checks (one request per line on stdin, one reply line on
// stdout; byte strings hex encoded, "-" = empty).
#include "llbuild/Basic/FileInfo.h"
#include "llbuild/Basic/FileSystem.h"
#include "llbuild/Basic/ShellUtility.h"
#include "llbuild/Basic/StringList.h"
#include "llbuild/BuildSystem/BuildKey.h"
#include "llbuild/BuildSystem/BuildSystem.h"
#include "llbuild/BuildSystem/BuildValue.h"
#include "llbuild/Core/DependencyInfoParser.h"
#include "llbuild/Core/MakefileDepsParser.h"

#include <cstdio>
#include <cstdlib>
#include <cstring>
#include <iostream>
#include <sstream>
#include <atomic>
#include <string>
#include <thread>
#include <vector>

using namespace llbuild;
using namespace llbuild::basic;
using namespace llbuild::buildsystem;

static std::string hex(StringRef s) {
  if (s.empty()) return "-";
  static const char* d = "0123456789abcdef";
  std::string r;
  for (unsigned char c : s) { r.push_back(d[c >> 4]); r.push_back(d[c & 15]); }
  return r;
}
static std::string unhex(const std::string& h) {
  if (h == "-") return "";
  std::string r;
  auto v = [](char c) { return c <= '9' ? c - '0' : (c | 32) - 'a' + 10; };
  for (size_t i = 0; i + 1 < h.size(); i += 2) r.push_back(char(v(h[i]) * 16 + v(h[i + 1])));
  return r;
}
static std::vector<std::string> split(const std::string& s, char sep = ' ') {
  std::vector<std::string> r;
  std::string cur;
  for (char c : s) {
    if (c == sep) { r.push_back(cur); cur.clear(); } else cur.push_back(c);
  }
  r.push_back(cur);
  return r;
}
static std::vector<std::string> hexlist(const std::string& s) {
  std::vector<std::string> r;
  if (s == "~") return r;      // "~" = empty list, "-" = list with one empty string
  for (auto& p : split(s, ',')) r.push_back(unhex(p));
  return r;
}
static std::string listhex(const std::vector<StringRef>& v) {
  if (v.empty()) return "~";
  std::string r;
  for (size_t i = 0; i < v.size(); ++i) { if (i) r += ","; r += hex(v[i]); }
  return r;
}

static FileInfo parseInfo(const std::string& s) {
  auto p = split(s, ':');
  FileInfo fi;
  fi.device = strtoull(p[0].c_str(), nullptr, 10);
  fi.inode = strtoull(p[1].c_str(), nullptr, 10);
  fi.mode = strtoull(p[2].c_str(), nullptr, 10);
  fi.size = strtoull(p[3].c_str(), nullptr, 10);
  fi.modTime.seconds = strtoull(p[4].c_str(), nullptr, 10);
  fi.modTime.nanoseconds = strtoull(p[5].c_str(), nullptr, 10);
  std::string ck = unhex(p[6]);
  memset(fi.checksum.bytes, 0, 32);
  memcpy(fi.checksum.bytes, ck.data(), std::min<size_t>(32, ck.size()));
  return fi;
}
static std::string infoStr(const FileInfo& fi) {
  std::ostringstream os;
  os << fi.device << ":" << fi.inode << ":" << fi.mode << ":" << fi.size << ":" << fi.modTime.seconds << ":"
     << fi.modTime.nanoseconds << ":" << hex(StringRef((const char*)fi.checksum.bytes, 32));
  return os.str();
}

static BuildKey makeKey(int kind, const std::string& name, const std::string& data,
                        const std::vector<std::string>& filters) {
  StringList fl{ArrayRef<std::string>(filters)};
  switch (BuildKey::Kind(kind)) {
  case BuildKey::Kind::Command: return BuildKey::makeCommand(name);
  case BuildKey::Kind::CustomTask: return BuildKey::makeCustomTask(name, data);
  case BuildKey::Kind::DirectoryContents: return BuildKey::makeDirectoryContents(name);
  case BuildKey::Kind::FilteredDirectoryContents: return BuildKey::makeFilteredDirectoryContents(name, fl);
  case BuildKey::Kind::DirectoryTreeSignature: return BuildKey::makeDirectoryTreeSignature(name, fl);
  case BuildKey::Kind::DirectoryTreeStructureSignature:
    return BuildKey::makeDirectoryTreeStructureSignature(name, fl);
  case BuildKey::Kind::Node: return BuildKey::makeNode(name);
  case BuildKey::Kind::Stat: return BuildKey::makeStat(name);
  case BuildKey::Kind::Target: return BuildKey::makeTarget(name);
  default: abort();
  }
}

static std::string describeKey(const BuildKey& k) {
  std::ostringstream os;
  os << int(k.getKind()) << " ";
  switch (k.getKind()) {
  case BuildKey::Kind::Command: os << hex(k.getCommandName()) << " - ~"; break;
  case BuildKey::Kind::CustomTask: os << hex(k.getCustomTaskName()) << " " << hex(k.getCustomTaskData()) << " ~"; break;
  case BuildKey::Kind::DirectoryContents: os << hex(k.getDirectoryPath()) << " - ~"; break;
  case BuildKey::Kind::FilteredDirectoryContents:
    os << hex(k.getFilteredDirectoryPath()) << " - " << listhex(k.getContentExclusionPatternsAsStringList().getValues());
    break;
  case BuildKey::Kind::DirectoryTreeSignature:
    os << hex(k.getDirectoryTreeSignaturePath()) << " - " << listhex(k.getContentExclusionPatternsAsStringList().getValues());
    break;
  case BuildKey::Kind::DirectoryTreeStructureSignature:
    os << hex(k.getFilteredDirectoryPath()) << " - " << listhex(k.getContentExclusionPatternsAsStringList().getValues());
    break;
  case BuildKey::Kind::Node: os << hex(k.getNodeName()) << " - ~"; break;
  case BuildKey::Kind::Stat: os << hex(k.getStatName()) << " - ~"; break;
  case BuildKey::Kind::Target: os << hex(k.getTargetName()) << " - ~"; break;
  default: os << "- - ~";
  }
  return os.str();
}

static BuildValue makeValue(int kind, uint64_t sig, const std::vector<FileInfo>& infos,
                            const std::vector<std::string>& strs) {
  typedef BuildValue::Kind K;
  CommandSignature s(sig);
  switch (K(kind)) {
  case K::Invalid: return BuildValue::makeInvalid();
  case K::VirtualInput: return BuildValue::makeVirtualInput();
  case K::ExistingInput: return BuildValue::makeExistingInput(infos[0]);
  case K::MissingInput: return BuildValue::makeMissingInput();
  case K::DirectoryContents: return BuildValue::makeDirectoryContents(infos[0], strs);
  case K::DirectoryTreeSignature: return BuildValue::makeDirectoryTreeSignature(s);
  case K::DirectoryTreeStructureSignature: return BuildValue::makeDirectoryTreeStructureSignature(s);
  case K::StaleFileRemoval: return BuildValue::makeStaleFileRemoval(strs);
  case K::MissingOutput: return BuildValue::makeMissingOutput();
  case K::FailedInput: return BuildValue::makeFailedInput();
  case K::SuccessfulCommand: return BuildValue::makeSuccessfulCommand(infos);
  case K::FailedCommand: return BuildValue::makeFailedCommand();
  case K::PropagatedFailureCommand: return BuildValue::makePropagatedFailureCommand();
  case K::CancelledCommand: return BuildValue::makeCancelledCommand();
  case K::SkippedCommand: return BuildValue::makeSkippedCommand();
  case K::Target: return BuildValue::makeTarget();
  case K::FilteredDirectoryContents: return BuildValue::makeFilteredDirectoryContents(strs);
  case K::SuccessfulCommandWithOutputSignature:
    return BuildValue::makeSuccessfulCommandWithOutputSignature(infos, s);
  }
  abort();
}

static std::string describeValue(const BuildValue& v) {
  typedef BuildValue::Kind K;
  std::ostringstream os;
  os << int(v.getKind()) << " ";
  uint64_t sig = 0;
  if (v.isDirectoryTreeSignature()) sig = v.getDirectoryTreeSignature().value;
  else if (v.isDirectoryTreeStructureSignature()) sig = v.getDirectoryTreeStructureSignature().value;
  else if (v.getKind() == K::SuccessfulCommandWithOutputSignature) sig = v.getOutputSignature().value;
  os << sig << " ";
  if (v.isExistingInput() || v.isSuccessfulCommand() || v.isDirectoryContents()) {
    unsigned n = v.getNumOutputs();
    os << n;
    for (unsigned i = 0; i < n; ++i) os << " " << infoStr(v.getNthOutputInfo(i));
  } else {
    os << 0;
  }
  os << " ";
  if (v.isDirectoryContents() || v.isFilteredDirectoryContents()) os << listhex(v.getDirectoryContents());
  else if (v.isStaleFileRemoval()) os << listhex(v.getStaleFileList());
  else os << "~";
  return os.str();
}

namespace {
struct MkActions : core::MakefileDepsParser::ParseActions {
  std::ostringstream os;
  void error(StringRef msg, uint64_t pos) override { os << " E:" << pos; }
  void actOnRuleStart(StringRef, StringRef unescaped) override { os << " S:" << hex(unescaped); }
  void actOnRuleDependency(StringRef, StringRef unescaped) override { os << " D:" << hex(unescaped); }
  void actOnRuleEnd() override { os << " X"; }
};
struct DiActions : core::DependencyInfoParser::ParseActions {
  std::ostringstream os;
  void error(const char*, uint64_t pos) override { os << " E:" << pos; }
  void actOnVersion(StringRef s) override { os << " V:" << hex(s); }
  void actOnInput(StringRef s) override { os << " I:" << hex(s); }
  void actOnOutput(StringRef s) override { os << " O:" << hex(s); }
  void actOnMissing(StringRef s) override { os << " M:" << hex(s); }
};
}

int main() {
  std::string line;
  auto local = createLocalFileSystem();
  DeviceAgnosticFileSystem agnostic(createLocalFileSystem());
  ChecksumOnlyFileSystem checksum(createLocalFileSystem());
  while (std::getline(std::cin, line)) {
    auto t = split(line);
    const std::string& op = t[0];
    std::ostringstream out;
    if (op == "keyenc") {
      BuildKey k = makeKey(atoi(t[1].c_str()), unhex(t[2]), unhex(t[3]), hexlist(t[4]));
      out << hex(k.toData().str());
    } else if (op == "keydec") {
      BuildKey k = BuildKey::fromData(core::KeyType(unhex(t[1])));
      out << describeKey(k);
    } else if (op == "kindids") {
      for (int k = 0; k < int(BuildKey::Kind::Unknown); ++k) {
        char c = BuildKey::identifierForKind(BuildKey::Kind(k));
        out << k << ":" << int((unsigned char)c) << ":" << int(BuildKey::kindForIdentifier(c)) << " ";
      }
    } else if (op == "valenc") {
      // valenc <variant> <kind> <sig> <n> <info>*n <strings>
      const std::string& variant = t[1];
      int kind = atoi(t[2].c_str());
      uint64_t sig = strtoull(t[3].c_str(), nullptr, 10);
      int n = atoi(t[4].c_str());
      std::vector<FileInfo> infos;
      for (int i = 0; i < n; ++i) infos.push_back(parseInfo(t[5 + i]));
      auto strs = hexlist(t[5 + n]);
      BuildValue v = makeValue(kind, sig, infos, strs);
      core::ValueType data;
      if (variant == "plain") data = v.toData();
      else if (variant == "copy") { BuildValue c(v); data = c.toData(); }
      else if (variant == "move") { BuildValue m(std::move(v)); data = m.toData(); }
      else if (variant == "assign") { BuildValue m = BuildValue::makeInvalid(); m = std::move(v); data = m.toData(); }
      out << hex(StringRef((const char*)data.data(), data.size()));
    } else if (op == "valover") {
      // valover <kind> <sig> <n> <info>*n <strings>  <kind> <sig> <n> <info>*n <strings>
      // move-ASSIGN the second value over an object that already holds the first one
      size_t p = 1;
      auto take = [&]() {
        int kind = atoi(t[p].c_str());
        uint64_t sig = strtoull(t[p + 1].c_str(), nullptr, 10);
        int n = atoi(t[p + 2].c_str());
        std::vector<FileInfo> infos;
        for (int i = 0; i < n; ++i) infos.push_back(parseInfo(t[p + 3 + i]));
        auto strs = hexlist(t[p + 3 + n]);
        p += 4 + n;
        return makeValue(kind, sig, infos, strs);
      };
      BuildValue holder = take();
      BuildValue v = take();
      holder = std::move(v);
      core::ValueType data = holder.toData();
      out << hex(StringRef((const char*)data.data(), data.size()));
    } else if (op == "valdec") {
      std::string b = unhex(t[1]);
      core::ValueType data(b.begin(), b.end());
      BuildValue v = BuildValue::fromData(data);
      out << describeValue(v);
    } else if (op == "prefix") {
      out << (pathIsPrefixedByPath(unhex(t[1]), unhex(t[2])) ? 1 : 0);
    } else if (op == "shesc") {
      out << hex(shellEscaped(unhex(t[1])));
    } else if (op == "mkdeps") {
      std::string data = unhex(t[2]);
      // exact-size buffer, no terminator
      char* mem = (char*)malloc(data.size() ? data.size() : 1);
      memcpy(mem, data.data(), data.size());
      MkActions a;
      core::MakefileDepsParser(StringRef(mem, data.size()), a, t[1] == "1").parse();
      free(mem);
      out << "ok" << a.os.str();
    } else if (op == "depinfo") {
      std::string data = unhex(t[1]);
      char* mem = (char*)malloc(data.size() ? data.size() : 1);
      memcpy(mem, data.data(), data.size());
      DiActions a;
      core::DependencyInfoParser(StringRef(mem, data.size()), a).parse();
      free(mem);
      out << "ok" << a.os.str();
    } else if (op == "finfo") {
      // finfo <fs: local|agnostic|checksum> <link 0|1> <path>
      FileSystem* fs = t[1] == "local" ? local.get() : t[1] == "agnostic" ? (FileSystem*)&agnostic : (FileSystem*)&checksum;
      std::string path = unhex(t[3]);
      FileInfo fi = t[2] == "1" ? fs->getLinkInfo(path) : fs->getFileInfo(path);
      out << infoStr(fi) << " " << (fi.isMissing() ? 1 : 0) << " " << (fi.isDirectory() ? 1 : 0);
    } else if (op == "pfinfo") {
      // pfinfo <fs> <repeat> <path>... : one thread per path, all started together, each observes its own path
      // <repeat> times; prints every observation (thread-major). The lanes of a build hash files concurrently.
      FileSystem* fs = t[1] == "local" ? local.get() : t[1] == "agnostic" ? (FileSystem*)&agnostic : (FileSystem*)&checksum;
      int repeat = atoi(t[2].c_str());
      std::vector<std::string> paths;
      for (size_t i = 3; i < t.size(); ++i) paths.push_back(unhex(t[i]));
      std::vector<std::vector<std::string>> res(paths.size());
      std::atomic<int> ready{0};
      std::vector<std::thread> th;
      for (size_t i = 0; i < paths.size(); ++i)
        th.emplace_back([&, i] {
          ++ready;
          while (ready.load() < (int)paths.size()) {}
          for (int k = 0; k < repeat; ++k) res[i].push_back(infoStr(fs->getFileInfo(paths[i])));
        });
      for (auto& x : th) x.join();
      bool first = true;
      for (auto& r : res) for (auto& x : r) { out << (first ? "" : " ") << x; first = false; }
    } else if (op == "infoeq") {
      out << (parseInfo(t[1]) == parseInfo(t[2]) ? 1 : 0);
    } else if (op == "quit") {
      break;
    } else {
      out << "ERR unknown op";
    }
    std::cout << out.str() << "\n" << std::flush;
  }
  return 0;
}
