/* childsim -- the scripted child for C16. argv[1] is a comma-separated behaviour:
 *   o<N>:<c>[:<chunk>]  write N bytes of character c to stdout (in chunks)
 *   e<N>:<c>[:<chunk>]  the same to stderr
 *   s<ms>               sleep
 *   c<fd>               close descriptor fd
 *   r                   release the lane over $LLBUILD_CONTROL_FD (documented handshake)
 *   R                   send a handshake with a wrong task id
 *   p<VAR>              print "VAR=value\n" to stdout ("VAR=<unset>\n" if unset)
 *   i                   ignore SIGINT
 *   x<code>             exit(code)       k<sig>  raise(sig)
 */
#define _GNU_SOURCE
#include <signal.h>
#include <stdio.h>
#include <stdlib.h>
#include <string.h>
#include <unistd.h>

static void emit(int fd, long n, char c, long chunk) {
  char buf[65536];
  if (chunk <= 0 || chunk > (long)sizeof buf) chunk = sizeof buf;
  memset(buf, c, sizeof buf);
  while (n > 0) {
    long k = n < chunk ? n : chunk;
    ssize_t w = write(fd, buf, k);
    if (w <= 0) return;
    n -= w;
  }
}

int main(int argc, char** argv) {
  if (argc < 2) return 0;
  char* s = strdup(argv[1]);
  for (char* tok = strtok(s, ","); tok; tok = strtok(NULL, ",")) {
    switch (tok[0]) {
    case 'o': case 'e': {
      long n = 0, chunk = 0; char c = 'a';
      sscanf(tok + 1, "%ld:%c:%ld", &n, &c, &chunk);
      emit(tok[0] == 'o' ? 1 : 2, n, c, chunk);
      break;
    }
    case 's': usleep(atoi(tok + 1) * 1000); break;
    case 'c': close(atoi(tok + 1)); break;
    case 'r': case 'R': {
      const char* fd = getenv("LLBUILD_CONTROL_FD");
      const char* id = getenv("LLBUILD_TASK_ID");
      if (fd && id) {
        char msg[256];
        int n = snprintf(msg, sizeof msg, "llbuild.1\n%s%s\n", id, tok[0] == 'R' ? "-bogus" : "");
        if (write(atoi(fd), msg, n) < 0) {}
      }
      break;
    }
    case 'p': {
      const char* v = getenv(tok + 1);
      char msg[1024];
      int n = snprintf(msg, sizeof msg, "%s=%s\n", tok + 1, v ? v : "<unset>");
      if (write(1, msg, n) < 0) {}
      break;
    }
    case 'i': signal(SIGINT, SIG_IGN); break;
    case 'x': _exit(atoi(tok + 1));
    case 'k': raise(atoi(tok + 1)); break;
    default: break;
    }
  }
  return 0;
}
