// enginesim -- interprets an "engine script" against llbuild's core::BuildEngine
// (through the C++ interface or the libllbuild C interface) and prints a trace
// of everything observable. All judgement happens outside (pbt/*.py).
//
// Script (one op per line; byte strings are hex, "-" = empty):
//   config db=<path|none> front=<cxx|capi> dump=<0|1> flush=<0|1> journal=<path|none>
//   leaf <key> <vprefix>
//   rule <key> <vprefix> ver=<n> mod=<M> salt=<n> force=<0|1> art=<0|1>
//   in <key> <r|s|m> <w> <src|-1> <mod> <rem>      (appended to the last rule)
//   disc <key> <w> <src|-1> <mod> <rem>            (appended to the last rule)
//   undef <key>
//   set <key> <int>
//   tamper <key> <valhex>
//   restart client=<n> recreate=<0|1>
//   reset
//   build <key> mode=<sync|idle|mixed|threads> choices=<c,c,..|-> cancel=<none|loop:K|cb:N:P|wait:K|thread:USEC> probe=<none|cb:N> nthreads=<n>
//   dbexec <sqlhex>
//   dbwrite <byteshex>
//   dbdump
//   end
#include "llbuild/Basic/ExecutionQueue.h"
#include "llbuild/Core/BuildDB.h"
#include "llbuild/Core/BuildEngine.h"
#include <llbuild/llbuild.h>

#include <sqlite3.h>

#include <atomic>
#include <cassert>
#include <condition_variable>
#include <cstdio>
#include <cstdlib>
#include <cstring>
#include <deque>
#include <algorithm>
#include <functional>
#include <map>
#include <memory>
#include <mutex>
#include <random>
#include <sstream>
#include <string>
#include <thread>
#include <unistd.h>
#include <vector>

using namespace llbuild;
using namespace llbuild::core;

// ---------------------------------------------------------------- utilities

static bool gFlush = false;
static std::mutex gOutMutex;

static std::string hex(const std::string& s) {
  if (s.empty()) return "-";
  static const char* d = "0123456789abcdef";
  std::string r;
  r.reserve(s.size() * 2);
  for (unsigned char c : s) { r.push_back(d[c >> 4]); r.push_back(d[c & 15]); }
  return r;
}
static std::string hex(const ValueType& v) {
  return hex(std::string(v.begin(), v.end()));
}
static std::string unhex(const std::string& h) {
  if (h == "-") return "";
  std::string r;
  auto val = [](char c) -> int {
    if (c >= '0' && c <= '9') return c - '0';
    if (c >= 'a' && c <= 'f') return c - 'a' + 10;
    if (c >= 'A' && c <= 'F') return c - 'A' + 10;
    fprintf(stderr, "bad hex\n"); exit(2);
  };
  for (size_t i = 0; i + 1 < h.size(); i += 2)
    r.push_back(char(val(h[i]) * 16 + val(h[i + 1])));
  return r;
}

static void out(const std::string& line) {
  std::lock_guard<std::mutex> g(gOutMutex);
  fputs(line.c_str(), stdout);
  fputc('\n', stdout);
  if (gFlush) fflush(stdout);
}
#define OUT(...)                                                               \
  do { std::ostringstream os_; os_ << __VA_ARGS__; out(os_.str()); } while (0)

static std::vector<std::string> split(const std::string& s, char sep = ' ') {
  std::vector<std::string> r;
  std::string cur;
  for (char c : s) {
    if (c == sep) { if (!cur.empty()) r.push_back(cur); cur.clear(); }
    else cur.push_back(c);
  }
  if (!cur.empty()) r.push_back(cur);
  return r;
}
static std::string opt(const std::vector<std::string>& toks, const std::string& name,
                       const std::string& def) {
  for (auto& t : toks) {
    if (t.size() > name.size() && t.compare(0, name.size(), name) == 0 &&
        t[name.size()] == '=')
      return t.substr(name.size() + 1);
  }
  return def;
}

// ---------------------------------------------------------------- the model

struct InSpec { std::string key; char mode; int w; int src; int mod; int rem; };
struct DiscSpec { std::string key; int w; int src; int mod; int rem; };
struct RuleSpec {
  bool leaf = true;
  bool defined = false;
  std::string key, prefix;
  int ver = 0, mod = 251, salt = 0;
  bool force = false, art = false;
  std::vector<InSpec> ins;
  std::vector<DiscSpec> discs;
};

struct World {
  std::map<std::string, RuleSpec> program;
  std::map<std::string, int> ext;           // leaf key -> external value
  std::map<std::string, std::string> art;   // rule key -> artifact bytes
  std::mutex mutex;                         // threads mode only
};
static World gWorld;

static std::string encodeValue(const RuleSpec& r, int v) {
  // prefix 0xEE: the value IS the byte, and 0 is encoded as the EMPTY value
  if (r.prefix == "\xee") return v == 0 ? std::string() : std::string(1, char((unsigned char)v));
  std::string s = r.prefix;
  s.push_back(char((unsigned char)v));
  return s;
}
static int decodeInt(const std::string& bytes) {
  if (bytes.empty()) return 0;
  return (unsigned char)bytes.back();
}
static bool gNoSig = false;   // C20: the C interface cannot express a rule signature
static uint64_t ruleSignature(const RuleSpec& r) {
  if (gNoSig) return 0;
  if (!r.defined) return 7;
  return r.leaf ? 11 : (uint64_t)r.ver * 1000003ULL + 13;
}
static RuleSpec specFor(const std::map<std::string, RuleSpec>& prog,
                        const std::string& key) {
  auto it = prog.find(key);
  if (it != prog.end()) return it->second;
  RuleSpec r;
  r.key = key; r.leaf = true; r.defined = false; r.prefix = "?";
  return r;
}

// ---------------------------------------------------------------- run state

struct Pending {
  int tid;
  std::function<void()> fire;   // reports discovered deps and completes
};

struct BuildCtl {
  std::string mode = "sync";
  std::vector<int> choices;
  size_t choicePos = 0;
  std::string cancelKind = "none";
  int cancelAt = -1;
  int cancelPost = 0;
  int probeAt = -1;
  int nthreads = 4;
  // dynamic
  int loopTops = 0, waits = 0, callbacks = 0;
  bool cancelIssued = false;
  // loop iteration during whose idle wait a completion was last handed over; the
  // engine consumes it in the following iteration's finished-task pass
  int lastWaitFireLoop = -10;
  bool drainStarted = false;
  std::vector<Pending> pending;
  int nextChoice() {
    if (choicePos < choices.size()) return choices[choicePos++];
    return 0;
  }
};

struct Sim;
static Sim* gSim = nullptr;

// A thread pool used only in "threads" mode.
struct Pool {
  std::vector<std::thread> threads;
  std::mutex m;
  std::condition_variable cv;
  std::deque<std::function<void()>> q;
  bool stop = false;
  void start(int n) {
    for (int i = 0; i < n; ++i)
      threads.emplace_back([this] {
        for (;;) {
          std::function<void()> f;
          {
            std::unique_lock<std::mutex> l(m);
            cv.wait(l, [this]() -> bool { return stop || !q.empty(); });
            if (q.empty()) return;
            f = std::move(q.front());
            q.pop_front();
          }
          f();
        }
      });
  }
  void add(std::function<void()> f) {
    { std::lock_guard<std::mutex> l(m); q.push_back(std::move(f)); }
    cv.notify_one();
  }
  void finish() {
    { std::lock_guard<std::mutex> l(m); stop = true; }
    cv.notify_all();
    for (auto& t : threads) t.join();
    threads.clear();
    stop = false;
  }
};

// Front-end independent per-task logic.
struct TaskLogic {
  int tid;
  RuleSpec spec;
  std::vector<bool> requested;
  std::vector<bool> arrived;
  std::vector<int> values;
  TaskLogic(int tid, const RuleSpec& s)
      : tid(tid), spec(s), requested(s.ins.size(), false),
        arrived(s.ins.size(), false), values(s.ins.size(), 0) {}
  static uintptr_t inputIDFor(size_t idx) { return (uintptr_t)idx * 7 + 3; }
  static size_t indexFor(uintptr_t id) { return (size_t)((id - 3) / 7); }
};

struct Sim {
  // configuration
  std::string dbPath = "none";
  std::string front = "cxx";
  bool dumpAfterBuild = false;
  uint32_t clientVersion = 1;
  bool recreate = true;

  std::map<std::string, RuleSpec> snapshot;  // program as of engine creation
  int nextTid = 1;
  int buildNo = 0;
  BuildCtl ctl;
  bool inBuild = false;
  Pool pool;
  std::mt19937 delayRng{12345};

  // engine (cxx front)
  struct Delegate;
  std::unique_ptr<Delegate> delegate;
  std::unique_ptr<BuildEngine> engine;
  // engine (capi front)
  llb_buildengine_t* cengine = nullptr;

  void newEngine();
  void destroyEngine();
  void doBuild(const std::string& key, const std::vector<std::string>& toks);
  void hook(verif::EngineHookPoint p);
  void callbackTick(const char* what, bool post);
  void issueCancel(const char* where);
  void lockProbe();
  void dumpDB();

  // model actions shared by both front ends
  using RequestFn = std::function<void(const InSpec&, size_t idx)>;
  void logicStart(TaskLogic& t, const RequestFn& req) {
    for (size_t i = 0; i < t.spec.ins.size(); ++i)
      if (t.spec.ins[i].src < 0) { t.requested[i] = true; req(t.spec.ins[i], i); }
  }
  void logicProvide(TaskLogic& t, size_t idx, const std::string& value,
                    const RequestFn& req) {
    if (idx >= t.spec.ins.size()) { OUT("harness-error bad-input-id " << idx); return; }
    t.arrived[idx] = true;
    t.values[idx] = decodeInt(value);
    for (size_t i = 0; i < t.spec.ins.size(); ++i) {
      const auto& in = t.spec.ins[i];
      if (in.src == (int)idx && !t.requested[i] &&
          (t.values[idx] % in.mod) == in.rem) {
        t.requested[i] = true;
        req(in, i);
      }
    }
  }
  // Computes value + discovered deps; returns them.
  void logicCompute(TaskLogic& t, std::string& valueOut,
                    std::vector<std::string>& discOut) {
    std::lock_guard<std::mutex> g(gWorld.mutex);
    if (t.spec.leaf) {
      int v = 0;
      auto it = gWorld.ext.find(t.spec.key);
      if (it != gWorld.ext.end()) v = it->second;
      valueOut = encodeValue(t.spec, v);
      return;
    }
    long sum = (long)t.spec.salt * (t.spec.ver + 1);
    for (size_t i = 0; i < t.spec.ins.size(); ++i)
      if (t.spec.ins[i].mode == 'r' && t.arrived[i])
        sum += (long)t.spec.ins[i].w * t.values[i];
    for (auto& d : t.spec.discs) {
      bool active = d.src < 0;
      if (!active && d.src < (int)t.spec.ins.size() && t.arrived[d.src] &&
          t.spec.ins[d.src].mode == 'r')
        active = (t.values[d.src] % d.mod) == d.rem;
      if (!active) continue;
      int v = 0;
      auto it = gWorld.ext.find(d.key);
      if (it != gWorld.ext.end()) v = it->second;
      sum += (long)d.w * v;
      discOut.push_back(d.key);
    }
    int v = (int)(((sum % t.spec.mod) + t.spec.mod) % t.spec.mod);
    valueOut = encodeValue(t.spec, v);
    if (t.spec.art) {
      // the "output file" of this rule: written when the task computes, whether or not the
      // completion is ever processed (a killed or cancelled build leaves it behind)
      gWorld.art[t.spec.key] = valueOut;
      OUT("art " << hex(t.spec.key) << " " << hex(valueOut));
    }
  }
  bool logicValid(const RuleSpec& spec, const std::string& stored) {
    std::lock_guard<std::mutex> g(gWorld.mutex);
    if (spec.leaf) {
      int v = 0;
      auto it = gWorld.ext.find(spec.key);
      if (it != gWorld.ext.end()) v = it->second;
      return stored == encodeValue(spec, v);
    }
    if (spec.art) {
      auto it = gWorld.art.find(spec.key);
      return it != gWorld.art.end() && it->second == stored;
    }
    return true;
  }
  // Called from inputsAvailable: decide when the completion fires.
  void scheduleCompletion(int tid, std::function<void()> fire) {
    // completions fired from inside inputsAvailable are consumed by the engine
    // in the same loop iteration, i.e. before the next LoopTop
    if (ctl.mode == "sync") { fire(); return; }
    if (ctl.mode == "mixed") {
      int c = ctl.nextChoice();
      OUT("choice-sync " << tid << " " << (c % 2 == 0));
      if (c % 2 == 0) { fire(); return; }
    }
    if (ctl.mode == "threads") {
      unsigned delay = delayRng() % 200;
      pool.add([fire, delay] {
        if (delay > 100) std::this_thread::sleep_for(std::chrono::microseconds(delay - 100));
        else if (delay > 50) std::this_thread::yield();
        fire();
      });
      return;
    }
    ctl.pending.push_back({tid, std::move(fire)});
  }
};

// ---------------------------------------------------------------- C++ front

struct SimTask : public Task {
  Sim& sim;
  TaskLogic logic;
  SimTask(Sim& sim, int tid, const RuleSpec& s) : sim(sim), logic(tid, s) {}
  ~SimTask() override { OUT("destroy " << logic.tid); }

  Sim::RequestFn requester(TaskInterface ti) {
    int tid = logic.tid;
    return [ti, tid](const InSpec& in, size_t idx) mutable {
      uintptr_t id = TaskLogic::inputIDFor(idx);
      OUT("request " << tid << " " << hex(in.key) << " " << in.mode << " " << id);
      if (in.mode == 'r') ti.request(KeyType(in.key), id);
      else if (in.mode == 's') ti.requestSingleUse(KeyType(in.key), id);
      else ti.mustFollow(KeyType(in.key));
    };
  }
  void start(TaskInterface ti) override {
    sim.callbackTick("start", false);
    OUT("start " << logic.tid);
    sim.logicStart(logic, requester(ti));
    sim.callbackTick("start", true);
  }
  void providePriorValue(TaskInterface, const ValueType& value) override {
    sim.callbackTick("prior", false);
    OUT("prior " << logic.tid << " " << hex(value));
    sim.callbackTick("prior", true);
  }
  void provideValue(TaskInterface ti, uintptr_t inputID, const KeyType& key,
                    const ValueType& value) override {
    sim.callbackTick("provide", false);
    OUT("provide " << logic.tid << " " << inputID << " " << hex(key.str()) << " "
                   << hex(value));
    sim.logicProvide(logic, TaskLogic::indexFor(inputID),
                     std::string(value.begin(), value.end()), requester(ti));
    sim.callbackTick("provide", true);
  }
  void inputsAvailable(TaskInterface ti) override {
    sim.callbackTick("avail", false);
    OUT("avail " << logic.tid);
    std::string value;
    std::vector<std::string> discs;
    sim.logicCompute(logic, value, discs);
    int tid = logic.tid;
    bool force = logic.spec.force;
    sim.scheduleCompletion(tid, [ti, tid, value, discs, force]() mutable {
      for (auto& d : discs) {
        OUT("disc " << tid << " " << hex(d));
        ti.discoveredDependency(KeyType(d));
      }
      OUT("complete " << tid << " " << hex(value) << " " << force);
      ti.complete(ValueType(value.begin(), value.end()), force);
    });
    sim.callbackTick("avail", true);
  }
};

struct SimRule : public Rule {
  Sim& sim;
  RuleSpec spec;
  SimRule(Sim& sim, const RuleSpec& s)
      : Rule(KeyType(s.key), basic::CommandSignature(ruleSignature(s))), sim(sim),
        spec(s) {}
  Task* createTask(BuildEngine&) override {
    int tid = sim.nextTid++;
    OUT("create " << hex(spec.key) << " " << tid);
    return new SimTask(sim, tid, spec);
  }
  bool isResultValid(BuildEngine&, const ValueType& value) override {
    bool ok = sim.logicValid(spec, std::string(value.begin(), value.end()));
    OUT("valid " << hex(spec.key) << " " << ok << " " << hex(value));
    return ok;
  }
  void updateStatus(BuildEngine&, StatusKind k) override {
    OUT("status " << hex(spec.key) << " " << (int)k);
  }
};

struct Sim::Delegate : public BuildEngineDelegate, public basic::ExecutionQueueDelegate {
  Sim& sim;
  explicit Delegate(Sim& s) : sim(s) {}
  std::unique_ptr<basic::ExecutionQueue> createExecutionQueue() override {
    return basic::createSerialQueue(*this, nullptr);
  }
  std::unique_ptr<Rule> lookupRule(const KeyType& key) override {
    RuleSpec s = specFor(sim.snapshot, key.str());
    OUT("lookup " << hex(key.str()) << " " << ruleSignature(s));
    return std::unique_ptr<Rule>(new SimRule(sim, s));
  }
  void determinedRuleNeedsToRun(Rule* r, Rule::RunReason reason, Rule* input) override {
    OUT("needs " << hex(r->key.str()) << " " << (int)reason << " "
                 << (input ? hex(input->key.str()) : std::string("-")));
  }
  void cycleDetected(const std::vector<Rule*>& items) override {
    std::ostringstream os;
    os << "cycle";
    for (auto* r : items) os << " " << hex(r->key.str());
    out(os.str());
  }
  void error(const llvm::Twine& message) override {
    OUT("error " << hex(message.str()));
  }
  void processStarted(basic::ProcessContext*, basic::ProcessHandle, llbuild_pid_t) override {}
  void processHadError(basic::ProcessContext*, basic::ProcessHandle, const llvm::Twine&) override {}
  void processHadOutput(basic::ProcessContext*, basic::ProcessHandle, StringRef) override {}
  void processFinished(basic::ProcessContext*, basic::ProcessHandle, const basic::ProcessResult&) override {}
  void queueJobStarted(basic::JobDescriptor*) override {}
  void queueJobFinished(basic::JobDescriptor*) override {}
};

// ---------------------------------------------------------------- C front

struct CRuleCtx { Sim* sim; RuleSpec spec; };
struct CTaskCtx { Sim* sim; TaskLogic logic; CTaskCtx(Sim* s, int tid, const RuleSpec& r) : sim(s), logic(tid, r) {} };
// Rule contexts live as long as the engine (the C API never frees them).
static std::vector<std::unique_ptr<CRuleCtx>> gCRuleCtxs;

static Sim::RequestFn cRequester(llb_task_interface_t ti, int tid) {
  return [ti, tid](const InSpec& in, size_t idx) {
    uintptr_t id = TaskLogic::inputIDFor(idx);
    OUT("request " << tid << " " << hex(in.key) << " " << in.mode << " " << id);
    llb_data_t k{in.key.size(), (const uint8_t*)in.key.data()};
    if (in.mode == 'm') llb_buildengine_task_must_follow(ti, &k);
    else llb_buildengine_task_needs_input(ti, &k, id);  // no single-use in the C API
  };
}
// The engine context handed to every callback must be the one of the engine that makes the call: each C engine
// gets a context cell of its own (cells are never freed, so two engines never share an address).
struct CEngineCtx { Sim* sim; };
static CEngineCtx* gCEngineCtx = nullptr;
static void checkEngineCtx(void* ec, const char* where) {
  if (ec != (void*)gCEngineCtx) OUT("bad-engine-context " << where);
}
static void c_task_destroy(void* ctx) {
  auto* t = (CTaskCtx*)ctx;
  OUT("destroy " << t->logic.tid);
  delete t;
}
static void c_task_start(void* ctx, void* ec, llb_task_interface_t ti) {
  auto* t = (CTaskCtx*)ctx;
  checkEngineCtx(ec, "start");
  t->sim->callbackTick("start", false);
  OUT("start " << t->logic.tid);
  t->sim->logicStart(t->logic, cRequester(ti, t->logic.tid));
  t->sim->callbackTick("start", true);
}
static void c_task_provide(void* ctx, void* ec, llb_task_interface_t ti, uintptr_t id,
                           const llb_data_t* value) {
  auto* t = (CTaskCtx*)ctx;
  checkEngineCtx(ec, "provide_value");
  t->sim->callbackTick("provide", false);
  std::string v((const char*)value->data, value->length);
  size_t idx = TaskLogic::indexFor(id);
  // The C interface does not pass the key; log the key the model expects for
  // this input id so that the two front ends' traces are comparable.
  std::string k = idx < t->logic.spec.ins.size() ? t->logic.spec.ins[idx].key : "";
  OUT("provide " << t->logic.tid << " " << id << " " << hex(k) << " " << hex(v));
  t->sim->logicProvide(t->logic, idx, v, cRequester(ti, t->logic.tid));
  t->sim->callbackTick("provide", true);
}
static void c_task_avail(void* ctx, void* ec, llb_task_interface_t ti) {
  auto* t = (CTaskCtx*)ctx;
  checkEngineCtx(ec, "inputs_available");
  t->sim->callbackTick("avail", false);
  OUT("avail " << t->logic.tid);
  std::string value;
  std::vector<std::string> discs;
  t->sim->logicCompute(t->logic, value, discs);
  int tid = t->logic.tid;
  bool force = t->logic.spec.force;
  t->sim->scheduleCompletion(tid, [ti, tid, value, discs, force]() {
    for (auto& d : discs) {
      OUT("disc " << tid << " " << hex(d));
      llb_data_t k{d.size(), (const uint8_t*)d.data()};
      llb_buildengine_task_discovered_dependency(ti, &k);
    }
    OUT("complete " << tid << " " << hex(value) << " " << force);
    llb_data_t v{value.size(), (const uint8_t*)value.data()};
    llb_buildengine_task_is_complete(ti, &v, force);
  });
  t->sim->callbackTick("avail", true);
}
static llb_task_t* c_rule_create_task(void* ctx, void* ec) {
  auto* r = (CRuleCtx*)ctx;
  checkEngineCtx(ec, "create_task");
  int tid = r->sim->nextTid++;
  OUT("create " << hex(r->spec.key) << " " << tid);
  llb_task_delegate_t d;
  memset(&d, 0, sizeof(d));
  d.context = new CTaskCtx(r->sim, tid, r->spec);
  d.destroy_context = c_task_destroy;
  d.start = c_task_start;
  d.provide_value = c_task_provide;
  d.inputs_available = c_task_avail;
  return llb_task_create(d);
}
static bool c_rule_valid(void* ctx, void* ec, const llb_rule_t*, const llb_data_t* result) {
  auto* r = (CRuleCtx*)ctx;
  checkEngineCtx(ec, "is_result_valid");
  std::string v((const char*)result->data, result->length);
  bool ok = r->sim->logicValid(r->spec, v);
  OUT("valid " << hex(r->spec.key) << " " << ok << " " << hex(v));
  return ok;
}
static void c_rule_status(void* ctx, void* ec, llb_rule_status_kind_t k) {
  auto* r = (CRuleCtx*)ctx;
  checkEngineCtx(ec, "update_status");
  OUT("status " << hex(r->spec.key) << " " << (int)k);
}
static void c_lookup_rule(void* ctx, const llb_data_t* key, llb_rule_t* rule_out) {
  checkEngineCtx(ctx, "lookup_rule");
  Sim* sim = ((CEngineCtx*)ctx)->sim;
  std::string k((const char*)key->data, key->length);
  RuleSpec s = specFor(sim->snapshot, k);
  OUT("lookup " << hex(k) << " " << ruleSignature(s));
  gCRuleCtxs.emplace_back(new CRuleCtx{sim, s});
  rule_out->context = gCRuleCtxs.back().get();
  rule_out->create_task = c_rule_create_task;
  rule_out->is_result_valid = c_rule_valid;
  rule_out->update_status = c_rule_status;
}
static void c_error(void*, const char* message) { OUT("error " << hex(std::string(message))); }
static void c_cycle(void*, const llb_data_t* keys, uint64_t n) {
  std::ostringstream os;
  os << "cycle";
  for (uint64_t i = 0; i < n; ++i)
    os << " " << hex(std::string((const char*)keys[i].data, keys[i].length));
  out(os.str());
}

// ---------------------------------------------------------------- Sim impl

void Sim::newEngine() {
  snapshot = gWorld.program;
  std::string err;
  bool ok = true;
  if (front == "cxx") {
    delegate.reset(new Delegate(*this));
    engine.reset(new BuildEngine(*delegate));
    if (dbPath != "none") {
      auto db = createSQLiteBuildDB(dbPath, clientVersion, recreate, &err);
      if (!db) ok = false;
      else ok = engine->attachDB(std::move(db), &err);
    }
  } else {
    llb_buildengine_delegate_t d;
    memset(&d, 0, sizeof(d));
    gCEngineCtx = new CEngineCtx{this};
    d.context = gCEngineCtx;
    d.lookup_rule = c_lookup_rule;
    d.error = c_error;
    d.cycle_detected = c_cycle;
    cengine = llb_buildengine_create(d);
    if (dbPath != "none") {
      // llb_data_t is (length, pointer): no terminator is promised, so the bytes right after the path are not
      // a NUL here (a binding that passes a slice of a longer buffer does the same)
      static std::string pathBuffer;
      pathBuffer = dbPath + "#not-part-of-the-path";
      llb_data_t p{dbPath.size(), (const uint8_t*)pathBuffer.data()};
      char* e = nullptr;
      ok = llb_buildengine_attach_db(cengine, &p, clientVersion, &e);
      if (e) { err = e; free(e); }
    }
  }
  OUT("engine-new front=" << front << " db=" << (dbPath != "none") << " ok=" << ok
                          << " err=" << hex(err));
  if (!ok) {
    // An engine whose database could not be attached is unusable; drop it.
    destroyEngine();
  }
}

void Sim::destroyEngine() {
  if (engine) { engine.reset(); delegate.reset(); }
  if (cengine) { llb_buildengine_destroy(cengine); cengine = nullptr; gCRuleCtxs.clear(); }
  OUT("engine-destroyed");
}

void Sim::issueCancel(const char* where) {
  if (ctl.cancelIssued) return;
  ctl.cancelIssued = true;
  OUT("cancel-issued " << where);
  if (engine) engine->cancelBuild();
}

void Sim::callbackTick(const char* what, bool post) {
  if (!inBuild) return;
  if (!post) ctl.callbacks++;
  if (ctl.cancelKind == "cb" && ctl.callbacks == ctl.cancelAt &&
      (int)post == ctl.cancelPost)
    issueCancel(what);
  if (!post && ctl.probeAt == ctl.callbacks) lockProbe();
}

void Sim::hook(verif::EngineHookPoint p) {
  if (!inBuild) return;
  if (p == verif::EngineHookPoint::LoopTop) {
    ctl.loopTops++;
    if (ctl.cancelKind == "loop" && ctl.loopTops == ctl.cancelAt) issueCancel("looptop");
    return;
  }
  if (ctl.mode == "threads") return;   // completions come from the pool
  bool drain = p == verif::EngineHookPoint::CancelDrainWait;
  if (drain && !ctl.drainStarted) {
    ctl.drainStarted = true;
    // cancelled right after an idle wait: the engine still holds the completion(s)
    // handed over there and is about to consume them
    if (ctl.lastWaitFireLoop == ctl.loopTops - 1) return;
  }
  if (!drain) {
    ctl.waits++;
    if (ctl.cancelKind == "wait" && ctl.waits == ctl.cancelAt && !ctl.cancelIssued) {
      // Issue the cancellation from a foreign thread while tasks are computing.
      ctl.cancelIssued = true;
      OUT("cancel-issued foreign-thread");
      std::thread t([this] { if (engine) engine->cancelBuild(); });
      t.join();
    }
  }
  if (ctl.pending.empty()) {
    OUT("deadlock " << (drain ? "drain" : "wait"));
    fflush(stdout);
    _exit(3);
  }
  int c = ctl.nextChoice();
  size_t n = ctl.pending.size();
  size_t extra = std::min<size_t>((size_t)(c / 16) % 4, n - 1);
  size_t idx = (size_t)c % n;
  OUT("choice " << (drain ? "drain" : "wait") << " n=" << n << " pick=" << ctl.pending[idx].tid
                << " extra=" << extra);
  std::vector<Pending> fire;
  fire.push_back(std::move(ctl.pending[idx]));
  ctl.pending.erase(ctl.pending.begin() + idx);
  for (size_t i = 0; i < extra; ++i) {
    size_t m = ctl.pending.size();
    size_t j = (size_t)ctl.nextChoice() % m;
    fire.push_back(std::move(ctl.pending[j]));
    ctl.pending.erase(ctl.pending.begin() + j);
  }
  if (!drain) ctl.lastWaitFireLoop = ctl.loopTops;
  for (auto& p2 : fire) p2.fire();
}

namespace {
struct ProbeDelegate : public BuildEngineDelegate, public basic::ExecutionQueueDelegate {
  std::unique_ptr<basic::ExecutionQueue> createExecutionQueue() override {
    return basic::createSerialQueue(*this, nullptr);
  }
  struct R : Rule {
    R(const KeyType& k) : Rule(k) {}
    struct T : Task {
      void start(TaskInterface) override {}
      void provideValue(TaskInterface, uintptr_t, const KeyType&, const ValueType&) override {}
      void inputsAvailable(TaskInterface ti) override { ti.complete(ValueType{'p'}); }
    };
    Task* createTask(BuildEngine&) override { return new T; }
    bool isResultValid(BuildEngine&, const ValueType&) override { return true; }
  };
  std::unique_ptr<Rule> lookupRule(const KeyType& key) override {
    return std::unique_ptr<Rule>(new R(key));
  }
  void cycleDetected(const std::vector<Rule*>&) override {}
  void error(const llvm::Twine& m) override { OUT("probe-error " << hex(m.str())); }
  void processStarted(basic::ProcessContext*, basic::ProcessHandle, llbuild_pid_t) override {}
  void processHadError(basic::ProcessContext*, basic::ProcessHandle, const llvm::Twine&) override {}
  void processHadOutput(basic::ProcessContext*, basic::ProcessHandle, StringRef) override {}
  void processFinished(basic::ProcessContext*, basic::ProcessHandle, const basic::ProcessResult&) override {}
  void queueJobStarted(basic::JobDescriptor*) override {}
  void queueJobFinished(basic::JobDescriptor*) override {}
};
}

void Sim::lockProbe() {
  // A second engine on the same database, while the first build holds it.
  ProbeDelegate d;
  BuildEngine e2(d);
  std::string err;
  auto db = createSQLiteBuildDB(dbPath, clientVersion, recreate, &err);
  bool ok = e2.attachDB(std::move(db), &err);
  OUT("probe-attach ok=" << ok << " err=" << hex(err));
  if (ok) {
    auto& v = e2.build(KeyType("probe-key"));
    OUT("probe-build result=" << hex(v));
  }
}

void Sim::doBuild(const std::string& key, const std::vector<std::string>& toks) {
  ctl = BuildCtl();
  ctl.mode = opt(toks, "mode", "sync");
  std::string ch = opt(toks, "choices", "-");
  if (ch != "-") for (auto& c : split(ch, ',')) ctl.choices.push_back(atoi(c.c_str()));
  std::string cancel = opt(toks, "cancel", "none");
  if (cancel != "none") {
    auto parts = split(cancel, ':');
    ctl.cancelKind = parts[0];
    ctl.cancelAt = atoi(parts[1].c_str());
    if (parts.size() > 2) ctl.cancelPost = atoi(parts[2].c_str());
  }
  std::string probe = opt(toks, "probe", "none");
  if (probe != "none") ctl.probeAt = atoi(split(probe, ':')[1].c_str());
  ctl.nthreads = atoi(opt(toks, "nthreads", "4").c_str());
  int n = ++buildNo;
  OUT("build-begin " << n << " " << hex(key) << " mode=" << ctl.mode);
  if (!engine && !cengine) {
    OUT("build-end " << n << " result=- noengine=1");
    return;
  }
  if (ctl.mode == "threads") pool.start(ctl.nthreads);
  inBuild = true;
  std::thread canceller;
  if (ctl.cancelKind == "thread") {
    int usec = ctl.cancelAt;
    canceller = std::thread([this, usec] {
      std::this_thread::sleep_for(std::chrono::microseconds(usec));
      OUT("cancel-issued racing-thread");
      if (engine) engine->cancelBuild();
    });
  }
  std::string result;
  if (engine) {
    const ValueType& v = engine->build(KeyType(key));
    result.assign(v.begin(), v.end());
  } else {
    llb_data_t k{key.size(), (const uint8_t*)key.data()};
    llb_data_t r{0, nullptr};
    llb_buildengine_build(cengine, &k, &r);
    result.assign((const char*)r.data, r.length);
  }
  if (canceller.joinable()) canceller.join();
  inBuild = false;
  if (ctl.mode == "threads") pool.finish();
  OUT("build-end " << n << " result=" << hex(result) << " cancelled="
                   << (engine ? engine->isCancelled() : false) << " epoch="
                   << (engine ? engine->getCurrentEpoch() : 0)
                   << " loops=" << ctl.loopTops << " waits=" << ctl.waits
                   << " callbacks=" << ctl.callbacks << " leftover=" << ctl.pending.size());
  ctl.pending.clear();
  if (dumpAfterBuild) dumpDB();
}

namespace {
struct DumpDelegate : public BuildDBDelegate {
  std::map<std::string, uint64_t> ids;
  std::vector<std::string> keys{""};
  const KeyID getKeyID(const KeyType& key) override {
    auto it = ids.find(key.str());
    if (it == ids.end()) {
      keys.push_back(key.str());
      it = ids.emplace(key.str(), (keys.size() - 1) * 16).first;
    }
    return KeyID((const void*)(uintptr_t)it->second);
  }
  KeyType getKeyForID(const KeyID id) override { return KeyType(keys[id.value() / 16]); }
};
}

void Sim::dumpDB() {
  if (dbPath == "none") return;
  OUT("db-begin");
  // (1) raw rows through sqlite3 directly
  sqlite3* db = nullptr;
  // read-write (without create): a hot journal left by a killed process has to be rolled back by
  // whoever opens the file next, exactly as the next build would do
  if (sqlite3_open_v2(dbPath.c_str(), &db, SQLITE_OPEN_READWRITE, nullptr) == SQLITE_OK) {
    sqlite3_busy_timeout(db, 2000);
    auto query = [&](const char* sql, const std::function<void(sqlite3_stmt*)>& row) {
      sqlite3_stmt* st = nullptr;
      if (sqlite3_prepare_v2(db, sql, -1, &st, nullptr) != SQLITE_OK) {
        OUT("db sqlerror " << hex(std::string(sqlite3_errmsg(db))));
        return;
      }
      int rc;
      while ((rc = sqlite3_step(st)) == SQLITE_ROW) row(st);
      if (rc != SQLITE_DONE) OUT("db sqlerror " << hex(std::string(sqlite3_errmsg(db))));
      sqlite3_finalize(st);
    };
    auto blob = [](sqlite3_stmt* st, int col) {
      const void* p = sqlite3_column_blob(st, col);
      int n = sqlite3_column_bytes(st, col);
      return std::string((const char*)p, p ? n : 0);
    };
    query("PRAGMA integrity_check;", [&](sqlite3_stmt* st) {
      OUT("db integrity " << hex(std::string((const char*)sqlite3_column_text(st, 0))));
    });
    query("SELECT version, client_version, iteration FROM info;", [&](sqlite3_stmt* st) {
      OUT("db info version=" << sqlite3_column_int64(st, 0) << " client="
                             << sqlite3_column_int64(st, 1) << " iteration="
                             << sqlite3_column_int64(st, 2));
    });
    query("SELECT id, typeof(key), CAST(key AS BLOB) FROM key_names ORDER BY id;",
          [&](sqlite3_stmt* st) {
            OUT("db key id=" << sqlite3_column_int64(st, 0) << " type="
                             << (const char*)sqlite3_column_text(st, 1)
                             << " key=" << hex(blob(st, 2)));
          });
    query("SELECT key_id, value, signature, built_at, computed_at, dependencies FROM "
          "rule_results ORDER BY key_id;",
          [&](sqlite3_stmt* st) {
            std::string deps = blob(st, 5);
            std::ostringstream ds;
            for (size_t i = 0; i + 8 <= deps.size(); i += 8) {
              uint64_t raw = 0;
              for (int b = 7; b >= 0; --b) raw = (raw << 8) | (unsigned char)deps[i + b];
              if (i) ds << ",";
              ds << (raw >> 2) << ":" << (raw & 3);
            }
            if (deps.empty()) ds << "-";
            OUT("db row keyid=" << sqlite3_column_int64(st, 0) << " value=" << hex(blob(st, 1))
                                << " sig=" << (uint64_t)sqlite3_column_int64(st, 2)
                                << " built=" << sqlite3_column_int64(st, 3)
                                << " computed=" << sqlite3_column_int64(st, 4)
                                << " rawlen=" << deps.size() << " deps=" << ds.str());
          });
  } else {
    OUT("db openerror " << hex(std::string(sqlite3_errmsg(db))));
  }
  if (db) sqlite3_close(db);
  // (2) through a fresh BuildDB, as a later process would read it
  {
    std::string err;
    auto bdb = createSQLiteBuildDB(dbPath, clientVersion, /*recreate=*/false, &err);
    DumpDelegate dd;
    bdb->attachDelegate(&dd);
    bool ok = false;
    Epoch e = bdb->getCurrentEpoch(&ok, &err);
    OUT("db api-epoch ok=" << ok << " epoch=" << e << " err=" << hex(err));
    if (ok) {
      std::vector<KeyType> keys;
      std::vector<Result> results;
      err.clear();
      bool ok2 = bdb->getKeysWithResult(keys, results, &err);
      if (!ok2 || !err.empty()) OUT("db api-error " << hex(err));
      for (size_t i = 0; i < keys.size(); ++i) {
        std::ostringstream ds;
        bool first = true;
        for (auto d : results[i].dependencies) {
          if (!first) ds << ",";
          first = false;
          ds << hex(dd.getKeyForID(d.keyID).str()) << ":"
             << ((d.singleUse ? 2 : 0) | (d.orderOnly ? 1 : 0));
        }
        if (first) ds << "-";
        OUT("db api key=" << hex(keys[i].str()) << " value=" << hex(results[i].value)
                          << " sig=" << results[i].signature.value << " built="
                          << results[i].builtAt << " computed=" << results[i].computedAt
                          << " deps=" << ds.str());
      }
    }
  }
  // (3) through a BuildDB of ANOTHER client version that must not recreate: every operation on that handle has
  // to be rejected, the first one and the ones after it (the connection is opened lazily, per operation)
  {
    std::string err;
    auto bdb = createSQLiteBuildDB(dbPath, clientVersion + 1, /*recreate=*/false, &err);
    DumpDelegate dd;
    bdb->attachDelegate(&dd);
    bool ok1 = false, ok2 = false;
    std::string e1, e2, e3;
    bdb->getCurrentEpoch(&ok1, &e1);
    Epoch second = bdb->getCurrentEpoch(&ok2, &e2);
    std::vector<KeyType> keys;
    bool ok3 = bdb->getKeys(keys, &e3);
    OUT("db api-foreign first=" << ok1 << " second=" << ok2 << " epoch=" << second << " getkeys=" << (ok3 && e3.empty())
                                << " nkeys=" << keys.size());
  }
  // (4) through the C interface llb_database_*: every key with its result (get_keys_and_results) and, per key, the
  // single lookup - a client reading the file back through the binding must see what core::BuildDB shows above
  {
    // (llb_database_* hands keys out as build-system keys: it is asked only when every stored key starts with one
    // of the build system's kind identifiers)
    bool allBuildKeys = getenv("ENGINESIM_CAPI_DB") != nullptr;
    if (allBuildKeys) {
      std::string e0;
      auto bdb = createSQLiteBuildDB(dbPath, clientVersion, /*recreate=*/false, &e0);
      DumpDelegate dd;
      bdb->attachDelegate(&dd);
      std::vector<KeyType> ks;
      if (!bdb->getKeys(ks, &e0) || !e0.empty()) allBuildKeys = false;
      for (auto& k : ks)
        if (k.str().empty() || !strchr("CDdNISsTX", k.str()[0])) allBuildKeys = false;
    }
    std::string pathBuf = dbPath;
    llb_data_t err = {0, nullptr};
    auto* cdb = allBuildKeys ? (llb_database_t*)llb_database_open(&pathBuf[0], clientVersion, &err) : nullptr;
    if (!allBuildKeys) {
      OUT("db capi-skipped");
    } else if (!cdb) {
      OUT("db capi-open-failed " << hex(std::string((const char*)err.data, err.length)));
    } else {
      llb_data_t e2 = {0, nullptr};
      uint64_t ep = llb_database_get_epoch(cdb, &e2);
      OUT("db capi-epoch epoch=" << ep << " err=" << (e2.length ? 1 : 0));
      llb_database_fetch_result_t* fr = nullptr;
      llb_data_t e3 = {0, nullptr};
      bool ok = llb_database_get_keys_and_results(cdb, &fr, &e3);
      auto keyHex = [](llb_build_key_t* k) {
        std::string raw;
        llb_build_key_get_key_data(k, &raw, [](void* c, uint8_t* d, size_t n) {
          ((std::string*)c)->assign((const char*)d, n);
        });
        return hex(raw);
      };
      auto resText = [&](llb_database_result_t* r) {
        std::ostringstream o;
        o << "value=" << hex(std::string((const char*)r->value.data, r->value.length)) << " built=" << r->built_at
          << " computed=" << r->computed_at << " deps=";
        for (uint32_t i = 0; i < r->dependencies_count; ++i) o << (i ? "," : "") << keyHex(r->dependencies[i]);
        if (!r->dependencies_count) o << "-";
        return o.str();
      };
      if (!ok || !fr) {
        OUT("db capi-fetch-failed ok=" << ok);
      } else {
        auto n = llb_database_fetch_result_get_count(fr);
        for (llb_database_key_id i = 0; i < n; ++i) {
          auto* k = llb_database_fetch_result_get_key_at_index(fr, (int32_t)i);
          auto* r = llb_database_fetch_result_get_result_at_index(fr, (int32_t)i);
          OUT("db capi key=" << keyHex(k) << " " << resText(r));
          // the same key looked up on its own, by a key object the client makes from the bytes
          std::string raw = unhex(keyHex(k));
          llb_data_t kd = {raw.size(), (const uint8_t*)raw.data()};
          auto* mk = llb_build_key_make(&kd);
          llb_database_result_t one;
          llb_data_t e4 = {0, nullptr};
          bool found = llb_database_lookup_rule_result(cdb, mk, &one, &e4);
          OUT("db capi-lookup key=" << hex(raw) << " found=" << found << " " << resText(&one));
          llb_database_destroy_result(&one);
          llb_build_key_destroy(mk);
        }
        llb_database_destroy_fetch_result(fr);
      }
      llb_database_destroy(cdb);
    }
  }
  OUT("db-end");
}

// ---------------------------------------------------------------- main

int main(int argc, char** argv) {
  FILE* in = stdin;
  if (argc > 1) {
    in = fopen(argv[1], "r");
    if (!in) { perror("open script"); return 2; }
  }
  Sim sim;
  gSim = &sim;
  verif::engineHook = [](BuildEngine*, verif::EngineHookPoint p) {
    if (gSim) gSim->hook(p);
  };
  RuleSpec* last = nullptr;
  char* lineBuf = nullptr;
  size_t cap = 0;
  ssize_t len;
  while ((len = getline(&lineBuf, &cap, in)) >= 0) {
    std::string line(lineBuf, len);
    while (!line.empty() && (line.back() == '\n' || line.back() == '\r')) line.pop_back();
    if (line.empty() || line[0] == '#') continue;
    auto t = split(line);
    const std::string& op = t[0];
    if (op == "config") {
      sim.dbPath = opt(t, "db", sim.dbPath);
      sim.front = opt(t, "front", sim.front);
      sim.dumpAfterBuild = opt(t, "dump", sim.dumpAfterBuild ? "1" : "0") == "1";
      gFlush = opt(t, "flush", gFlush ? "1" : "0") == "1";
      gNoSig = opt(t, "nosig", gNoSig ? "1" : "0") == "1";
      sim.clientVersion = (uint32_t)strtoul(opt(t, "client", "1").c_str(), nullptr, 10);
    } else if (op == "leaf") {
      RuleSpec r;
      r.key = unhex(t[1]); r.prefix = unhex(t[2]); r.leaf = true; r.defined = true;
      gWorld.program[r.key] = r;
      last = nullptr;
    } else if (op == "rule") {
      RuleSpec r;
      r.key = unhex(t[1]); r.prefix = unhex(t[2]); r.leaf = false; r.defined = true;
      r.ver = atoi(opt(t, "ver", "0").c_str());
      r.mod = atoi(opt(t, "mod", "251").c_str());
      r.salt = atoi(opt(t, "salt", "0").c_str());
      r.force = opt(t, "force", "0") == "1";
      r.art = opt(t, "art", "0") == "1";
      gWorld.program[r.key] = r;
      last = &gWorld.program[r.key];
    } else if (op == "in") {
      if (!last) { fprintf(stderr, "in without rule\n"); return 2; }
      last->ins.push_back({unhex(t[1]), t[2][0], atoi(t[3].c_str()), atoi(t[4].c_str()),
                           std::max(1, atoi(t[5].c_str())), atoi(t[6].c_str())});
    } else if (op == "disc") {
      if (!last) { fprintf(stderr, "disc without rule\n"); return 2; }
      last->discs.push_back({unhex(t[1]), atoi(t[2].c_str()), atoi(t[3].c_str()),
                             std::max(1, atoi(t[4].c_str())), atoi(t[5].c_str())});
    } else if (op == "undef") {
      gWorld.program.erase(unhex(t[1]));
      last = nullptr;
    } else if (op == "set") {
      gWorld.ext[unhex(t[1])] = atoi(t[2].c_str());
    } else if (op == "tamper") {
      gWorld.art[unhex(t[1])] = unhex(t[2]);
    } else if (op == "restart") {
      if (sim.engine || sim.cengine) sim.destroyEngine();
      sim.clientVersion = (uint32_t)strtoul(opt(t, "client", std::to_string(sim.clientVersion)).c_str(), nullptr, 10);
      sim.recreate = opt(t, "recreate", "1") == "1";
      sim.newEngine();
    } else if (op == "reset") {
      OUT("reset");
      if (sim.engine) sim.engine->resetForBuild();
    } else if (op == "build") {
      sim.doBuild(unhex(t[1]), t);
    } else if (op == "dbexec") {
      sqlite3* db = nullptr;
      int rc = sqlite3_open(sim.dbPath.c_str(), &db);
      char* e = nullptr;
      if (rc == SQLITE_OK) rc = sqlite3_exec(db, unhex(t[1]).c_str(), nullptr, nullptr, &e);
      OUT("dbexec rc=" << rc << " err=" << hex(std::string(e ? e : "")));
      if (e) sqlite3_free(e);
      if (db) sqlite3_close(db);
    } else if (op == "dbwrite") {
      std::string bytes = unhex(t[1]);
      FILE* f = fopen(sim.dbPath.c_str(), "wb");
      if (f) { fwrite(bytes.data(), 1, bytes.size(), f); fclose(f); }
      std::string j = sim.dbPath + "-journal";
      unlink(j.c_str());
      OUT("dbwrite " << bytes.size());
    } else if (op == "dbdump") {
      sim.dumpDB();
    } else if (op == "end") {
      break;
    } else {
      fprintf(stderr, "unknown op: %s\n", op.c_str());
      return 2;
    }
  }
  if (sim.engine || sim.cengine) sim.destroyEngine();
  OUT("done");
  fflush(stdout);
  return 0;
}
