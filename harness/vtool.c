/* vtool -- the deterministic "compiler" that generated build descriptions run.
 *
 *   vtool <id> [--salt S] [--in PATH]... [--out PATH]... [--deps FILE --style makefile|depinfo]
 *         [--restat] [--touch-only]
 *
 * - appends "<id> start" / "<id> done" to $VT_LOG (O_APPEND)
 * - consults $VT_CTL/<id> for an injected fault: "exit N" | "signal N" | "readmissing" |
 *   "sleep MS" | "unwritable"
 * - reads every declared input (directories recursively, names sorted) and every path named by
 *   a line "#include PATH" inside a declared regular-file input (the discovered dependencies,
 *   reported in the deps file with the documented escaping)
 * - writes to the i-th output the text "<hex of H(id, salt, inputs...)>:<i>\n"
 * - stamps outputs with the next tick of the shared logical clock $VT_CLOCK (utimensat)
 * - with --restat leaves an output untouched when its content would not change
 */
#define _GNU_SOURCE
#include <dirent.h>
#include <errno.h>
#include <fcntl.h>
#include <signal.h>
#include <stdint.h>
#include <stdio.h>
#include <stdlib.h>
#include <string.h>
#include <sys/file.h>
#include <sys/stat.h>
#include <unistd.h>

static uint64_t H = 1469598103934665603ULL;
static void hbytes(const void* p, size_t n) {
  const unsigned char* b = p;
  for (size_t i = 0; i < n; ++i) { H ^= b[i]; H *= 1099511628211ULL; }
}
static void hstr(const char* s) { hbytes(s, strlen(s)); hbytes("\0", 1); }

static void logline(const char* id, const char* what) {
  const char* path = getenv("VT_LOG");
  if (!path) return;
  int fd = open(path, O_WRONLY | O_APPEND | O_CREAT, 0644);
  if (fd < 0) return;
  char buf[4096];
  int n = snprintf(buf, sizeof buf, "%s %s\n", id, what);
  if (write(fd, buf, n) < 0) {}
  close(fd);
}

static long next_tick(void) {
  const char* path = getenv("VT_CLOCK");
  if (!path) return 0;
  int fd = open(path, O_RDWR | O_CREAT, 0644);
  if (fd < 0) return 0;
  flock(fd, LOCK_EX);
  char buf[64] = {0};
  long t = 0;
  if (read(fd, buf, sizeof buf - 1) > 0) t = atol(buf);
  t += 1;
  int n = snprintf(buf, sizeof buf, "%ld\n", t);
  lseek(fd, 0, SEEK_SET);
  if (ftruncate(fd, 0) < 0) {}
  if (write(fd, buf, n) < 0) {}
  flock(fd, LOCK_UN);
  close(fd);
  return t;
}

static char* discovered[256];
static int ndiscovered = 0;

static int cmpstr(const void* a, const void* b) { return strcmp(*(char* const*)a, *(char* const*)b); }

static int hash_file(const char* path, int scan_includes) {
  FILE* f = fopen(path, "rb");
  if (!f) return -1;
  char* data = NULL;
  size_t len = 0, cap = 0;
  char buf[65536];
  size_t n;
  while ((n = fread(buf, 1, sizeof buf, f)) > 0) {
    if (len + n + 1 > cap) { cap = (len + n + 1) * 2; data = realloc(data, cap); }
    memcpy(data + len, buf, n);
    len += n;
  }
  fclose(f);
  hbytes("F", 1);
  hbytes(data ? data : "", len);
  hbytes("\0", 1);
  if (scan_includes && data) {
    data[len] = 0;
    char* p = data;
    while (p && *p) {
      char* e = strchr(p, '\n');
      if (e) *e = 0;
      if (strncmp(p, "#include ", 9) == 0 && ndiscovered < 256) discovered[ndiscovered++] = strdup(p + 9);
      p = e ? e + 1 : NULL;
    }
  }
  free(data);
  return 0;
}

static int hash_path(const char* path, const char* label, int scan_includes);

static int hash_dir(const char* path) {
  DIR* d = opendir(path);
  if (!d) return -1;
  char* names[4096];
  int n = 0;
  struct dirent* e;
  while ((e = readdir(d)) && n < 4096) {
    if (!strcmp(e->d_name, ".") || !strcmp(e->d_name, "..")) continue;
    names[n++] = strdup(e->d_name);
  }
  closedir(d);
  qsort(names, n, sizeof names[0], cmpstr);
  hbytes("D", 1);
  for (int i = 0; i < n; ++i) {
    char sub[4096];
    snprintf(sub, sizeof sub, "%s/%s", path, names[i]);
    hash_path(sub, names[i], 0);
    free(names[i]);
  }
  hbytes("d", 1);
  return 0;
}

static int hash_path(const char* path, const char* label, int scan_includes) {
  struct stat st;
  hstr(label);
  if (lstat(path, &st) != 0) { hbytes("M", 1); return -1; }
  if (S_ISLNK(st.st_mode)) {
    char tgt[4096];
    ssize_t n = readlink(path, tgt, sizeof tgt - 1);
    if (n < 0) n = 0;
    tgt[n] = 0;
    hbytes("L", 1);
    hstr(tgt);
    return 0;
  }
  if (S_ISDIR(st.st_mode)) return hash_dir(path);
  return hash_file(path, scan_includes);
}

static void escape_make(FILE* f, const char* s) {
  for (; *s; ++s) {
    if (*s == ' ' || *s == '#' || *s == '\\') fputc('\\', f);
    if (*s == '$') fputc('$', f);
    fputc(*s, f);
  }
}

int main(int argc, char** argv) {
  if (argc < 2) return 2;
  const char* id = argv[1];
  const char* salt = "";
  const char* ins[256]; int nin = 0;
  const char* outs[64]; int nout = 0;
  const char* deps = NULL; const char* style = "makefile"; const char* rsp = NULL;
  int restat = 0;
  for (int i = 2; i < argc; ++i) {
    if (!strcmp(argv[i], "--salt") && i + 1 < argc) salt = argv[++i];
    else if (!strcmp(argv[i], "--in") && i + 1 < argc) { if (nin < 256) ins[nin++] = argv[++i]; }
    else if (!strcmp(argv[i], "--out") && i + 1 < argc) { if (nout < 64) outs[nout++] = argv[++i]; }
    else if (!strcmp(argv[i], "--deps") && i + 1 < argc) deps = argv[++i];
    else if (!strcmp(argv[i], "--style") && i + 1 < argc) style = argv[++i];
    else if (!strcmp(argv[i], "--restat")) restat = 1;
    else if (!strcmp(argv[i], "--rsp") && i + 1 < argc) rsp = argv[++i];   /* a response file the tool reads */
  }
  logline(id, "start");
  /* injected fault? */
  char fault[256] = {0};
  const char* ctl = getenv("VT_CTL");
  if (ctl) {
    char p[4096];
    snprintf(p, sizeof p, "%s/%s", ctl, id);
    FILE* f = fopen(p, "r");
    if (f) { if (!fgets(fault, sizeof fault, f)) fault[0] = 0; fclose(f); }
  }
  if (!strncmp(fault, "sleep ", 6)) usleep(atoi(fault + 6) * 1000);
  if (!strncmp(fault, "exit ", 5)) { logline(id, "fail"); return atoi(fault + 5); }
  if (!strncmp(fault, "signal ", 7)) { logline(id, "fail"); raise(atoi(fault + 7)); return 99; }
  if (!strncmp(fault, "readmissing", 11)) {
    FILE* f = fopen("/nonexistent/undeclared-input", "r");
    if (!f) { fprintf(stderr, "vtool: cannot read undeclared input\n"); logline(id, "fail"); return 1; }
  }
  hstr(id);
  hstr(salt);
  /* '#include' lines are followed only when the command reports them (a deps file) */
  for (int i = 0; i < nin; ++i) hash_path(ins[i], ins[i], deps != NULL);
  /* discovered dependencies: read them too */
  qsort(discovered, ndiscovered, sizeof discovered[0], cmpstr);
  int nd = 0;
  for (int i = 0; i < ndiscovered; ++i) {
    if (i && !strcmp(discovered[i], discovered[i - 1])) continue;
    discovered[nd++] = discovered[i];
  }
  ndiscovered = nd;
  hbytes("I", 1);
  for (int i = 0; i < ndiscovered; ++i) hash_path(discovered[i], discovered[i], 0);
  /* the response file is part of what the command reads */
  if (rsp) {
    hbytes("R", 1);
    static char rbuf[65536];
    size_t n = 0;
    FILE* f = fopen(rsp, "rb");
    if (f) { n = fread(rbuf, 1, sizeof rbuf - 1, f); fclose(f); }
    else { fprintf(stderr, "vtool: cannot read response file %s\n", rsp); logline(id, "fail"); return 1; }
    rbuf[n] = 0;
    hstr(rbuf);
  }
  /* deps file */
  if (deps) {
    FILE* f = fopen(deps, "wb");
    if (!f) { logline(id, "fail"); return 1; }
    if (!strcmp(style, "depinfo")) {
      fputc(0x00, f); fputs("vtool-1", f); fputc(0, f);
      for (int i = 0; i < ndiscovered; ++i) {
        /* every path the tool tried to read is an *input* record; ld-style "missing" (0x11)
         * records are only forwarded to the delegate by llbuild and carry no re-run obligation */
        fputc(0x10, f);
        fputs(discovered[i], f); fputc(0, f);
      }
      for (int i = 0; i < nout; ++i) { fputc(0x40, f); fputs(outs[i], f); fputc(0, f); }
    } else {
      escape_make(f, nout ? outs[0] : "out");
      fputs(":", f);
      for (int i = 0; i < ndiscovered; ++i) {
        fputs(i % 2 ? " \\\n  " : " ", f);
        escape_make(f, discovered[i]);
      }
      fputs("\n", f);
    }
    fclose(f);
  }
  /* outputs */
  for (int i = 0; i < nout; ++i) {
    char text[64];
    int n = snprintf(text, sizeof text, "%016llx:%d\n", (unsigned long long)H, i);
    if (!strncmp(fault, "unwritable", 10)) {
      fprintf(stderr, "vtool: cannot write output\n");
      logline(id, "fail");
      return 1;
    }
    if (restat) {
      char old[64] = {0};
      FILE* f = fopen(outs[i], "rb");
      if (f) {
        size_t r = fread(old, 1, sizeof old - 1, f);
        fclose(f);
        if (r == (size_t)n && !memcmp(old, text, n)) continue;
      }
    }
    char tmp[4096];
    snprintf(tmp, sizeof tmp, "%s.vt-tmp", outs[i]);
    FILE* f = fopen(tmp, "wb");
    if (!f) { fprintf(stderr, "vtool: cannot write %s: %s\n", outs[i], strerror(errno)); logline(id, "fail"); return 1; }
    fwrite(text, 1, n, f);
    fclose(f);
    long t = next_tick();
    struct timespec ts[2] = {{1000000000L + t, 0}, {1000000000L + t, 0}};
    utimensat(AT_FDCWD, tmp, ts, 0);
    if (rename(tmp, outs[i]) != 0) {
      fprintf(stderr, "vtool: cannot write %s: %s\n", outs[i], strerror(errno));
      unlink(tmp);
      logline(id, "fail");
      return 1;
    }
  }
  logline(id, "done");
  return 0;
}
