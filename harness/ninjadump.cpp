// ninjadump -- loads a Ninja manifest through llbuild's ManifestLoader (real files)
// and prints a lossless dump: one line per build statement, every field hex encoded.
//   cmd rule=<hex> out=<hex,..> in=<hex,..> implicit=<..> orderonly=<..> command=<hex>
//       description=<hex> depfile=<hex> deps=<n> rspfile=<hex> rspcontent=<hex> pool=<hex>
//       generator=<0|1> restat=<0|1>
//   default <hex>...      error <file hex> <message hex>      errors <n>
#include "llbuild/Ninja/Manifest.h"
#include "llbuild/Ninja/ManifestLoader.h"
#include "llbuild/Ninja/Lexer.h"
#include "llvm/Support/MemoryBuffer.h"
#include <cstdio>
#include <string>
#include <unistd.h>
using namespace llbuild;
using namespace llbuild::ninja;

static std::string hex(StringRef s) {
  if (s.empty()) return "-";
  static const char* d = "0123456789abcdef";
  std::string r;
  for (unsigned char c : s) { r.push_back(d[c >> 4]); r.push_back(d[c & 15]); }
  return r;
}
namespace {
struct Actions : ManifestLoaderActions {
  unsigned errors = 0;
  void initialize(ManifestLoader*) override {}
  void error(StringRef filename, StringRef message, const Token&) override {
    errors++;
    printf("error %s %s\n", hex(filename).c_str(), hex(message).c_str());
  }
  std::unique_ptr<llvm::MemoryBuffer> readFile(StringRef path, StringRef, const Token*) override {
    auto r = llvm::MemoryBuffer::getFile(path);
    if (!r) { errors++; printf("error %s %s\n", hex(path).c_str(), hex("cannot read file").c_str()); return nullptr; }
    return std::move(*r);
  }
};
}
static std::string list(const std::vector<Node*>& v, size_t b, size_t e) {
  if (b == e) return "~";
  std::string s;
  for (size_t i = b; i < e; ++i) { if (i != b) s += ","; s += hex(v[i]->getScreenPath()); }
  return s;
}
int main(int argc, char** argv) {
  if (argc < 2) return 2;
  char cwd[4096];
  if (!getcwd(cwd, sizeof cwd)) return 2;
  Actions actions;
  ManifestLoader loader(cwd, argv[1], actions);
  auto m = loader.load();
  if (!m) { printf("errors %u\nnomanifest\n", actions.errors); return 0; }
  for (auto* c : m->getCommands()) {
    auto& in = c->getInputs();
    size_t ne = c->getNumExplicitInputs(), ni = c->getNumImplicitInputs();
    printf("cmd rule=%s out=%s in=%s implicit=%s orderonly=%s command=%s description=%s depfile=%s deps=%d "
           "rspfile=%s rspcontent=%s pool=%s generator=%d restat=%d\n",
           hex(c->getRule()->getName()).c_str(), list(c->getOutputs(), 0, c->getOutputs().size()).c_str(),
           list(in, 0, ne).c_str(), list(in, ne, ne + ni).c_str(), list(in, ne + ni, in.size()).c_str(),
           hex(c->getCommandString()).c_str(), hex(c->getDescription()).c_str(), hex(c->getDepsFile()).c_str(),
           int(c->getDepsStyle()), hex(c->getRspFile()).c_str(), hex(c->getRspFileContent()).c_str(),
           hex(c->getExecutionPool() ? c->getExecutionPool()->getName() : std::string()).c_str(),
           int(c->hasGeneratorFlag()), int(c->hasRestatFlag()));
  }
  printf("default");
  for (auto* n : m->getDefaultTargets()) printf(" %s", hex(n->getScreenPath()).c_str());
  printf("\nerrors %u\n", actions.errors);
  return 0;
}
