"""C09 -- null builds run nothing; a command re-runs exactly when its definition changed."""
import copy
import os

from hypothesis import strategies as st

import common
from common import Outcome
import bs_model as bm
import c08

ID = "C09"
LEVEL = "exploration"
FLAVOURS = ["rel"]
TARGETS = ["bsx", "vtool"]
RULE = ("Three generated families. pairs: a random shell-command definition and a copy differing in EXACTLY ONE "
        "signature-relevant attribute -- name, one argument, an argument boundary (['ab','c'] vs ['a','bc']), one "
        "env key or value, one input, one output, a node MOVED between the input and output lists, deps path, "
        "deps-style (each pair of styles), each boolean flag, explicit signature -- both loaded by `bsx` through "
        "the real BuildFile loader; the signature is read where the engine reads it (Command::getSignature() at "
        "commandPreparing during a dry build); the two must differ, and a description-only change must not. "
        "process: the same definition loaded in two separate processes with different environment, working "
        "directory and ASLR must give equal signatures. history: C08-style workspaces where a successful build is "
        "followed by nothing, a one-attribute edit, a signature-irrelevant edit (description), or an output "
        "tamper/deletion, then a build in a NEW process: a null build starts no command, a relevant edit or a "
        "tampered output re-runs exactly that command (and what depends on changed outputs), an irrelevant edit "
        "re-runs nothing. Non-trivial = pairs in the list-boundary / move classes, or histories whose edited "
        "command has both upstream and downstream neighbours; distinct = sha1 of the case.")
ASSUMPTIONS = ["64-bit hash chain: an accidental collision has probability 2^-64, so any equal pair is structural",
               "with an explicit 'signature' attribute the documented behaviour is that args/env/deps are not part of it"]


def budget(tier):
    return 20000 if tier == "quick" else 500000


_word = st.sampled_from(["a", "b", "ab", "c", "bc", "x y", "-o", "", "$V", "a=b"])
_node = st.sampled_from(["n1", "n2", "n3", "d/n4", "n5", "<v1>", "<v2>"])
FLAGS = ["allow-missing-inputs", "allow-modified-outputs", "always-out-of-date", "inherit-env", "can-safely-interrupt",
         "control-enabled"]
STYLES = ["makefile", "dependency-info", "makefile-ignoring-subsequent-outputs"]


@st.composite
def shell_def(draw):
    nodes = ["n1", "n2", "n3", "d/n4", "n5", "<v1>", "<v2>"]
    perm = draw(st.permutations(nodes))
    nin = draw(st.integers(0, 3))
    nout = draw(st.integers(1, 3))
    d = {"name": draw(st.sampled_from(["C", "cmd one", "C2"])), "tool": "shell",
         "inputs": perm[:nin], "outputs": perm[nin:nin + nout],
         "args": ["/bin/true"] + draw(st.lists(_word, min_size=0, max_size=4))}
    if draw(st.booleans()):
        d["env"] = dict(draw(st.lists(st.tuples(st.sampled_from(["A", "B", "AB", "PATH"]), _word), max_size=3)))
    if draw(st.integers(0, 2)) == 0:
        d["depsfiles"] = draw(st.lists(st.sampled_from(["x.d", "y.d", "xy.d"]), min_size=1, max_size=2, unique=True))
        d["deps-style"] = draw(st.sampled_from(STYLES))
    for f in FLAGS:
        if draw(st.integers(0, 3)) == 0:
            d[f] = draw(st.booleans())
    if draw(st.integers(0, 5)) == 0:
        d["signature"] = draw(st.sampled_from(["s1", "s2", ""]))
    if draw(st.booleans()):
        d["description"] = draw(_word)
    return d


def mutate(draw, d):
    m = copy.deepcopy(d)
    explicit = bool(d.get("signature"))
    opts = ["name", "input-add", "output-add", "flag", "signature", "description"]
    if d["inputs"]:
        opts += ["input-remove", "input-change", "move-in-to-out"]
    if len(d["outputs"]) > 1:
        opts += ["output-remove", "move-out-to-in"]
    if not explicit:
        opts += ["arg-change", "arg-add", "env", "deps-style", "deps-path"]
        if len(d["args"]) >= 3:
            opts += ["arg-boundary", "arg-boundary"]
        # a boundary between ADJACENT LISTS of the definition (like moving a node between the input and the
        # output list): the trailing arguments become the first environment entry / the first deps path
        if len(d["args"]) >= 3 and d["args"][-2] and d["args"][-2] not in (d.get("env") or {}):
            opts += ["move-args-to-env"]
        if len(d["args"]) >= 2 and d["args"][-1] and d.get("depsfiles"):
            opts += ["move-arg-to-deps"]
        if d.get("env") and d.get("depsfiles") and list(d["env"].items())[-1][1]:
            opts += ["move-env-to-deps"]
    if not explicit:
        opts += ["args-form"]
    o = draw(st.sampled_from(opts))
    if o == "args-form":
        # the same text once as a ONE-ELEMENT LIST (the file of that name is executed) and once as a STRING
        # (handed to /bin/sh -c): different commands
        w = draw(st.sampled_from(["/bin/true", "/bin/true a b", "./tool x"]))
        d["args"] = [w]
        m = copy.deepcopy(d)
        m.pop("args")
        m["args_str"] = w
        return m, o
    used = set(d["inputs"]) | set(d["outputs"])
    free = [n for n in ["n1", "n2", "n3", "d/n4", "n5", "<v1>", "<v2>", "n6"] if n not in used]
    if o == "name":
        m["name"] = d["name"] + "x"
    elif o == "input-add":
        m["inputs"] = d["inputs"] + [draw(st.sampled_from(free))]
    elif o == "output-add":
        m["outputs"] = d["outputs"] + [draw(st.sampled_from(free))]
    elif o == "input-remove":
        m["inputs"] = d["inputs"][:-1] if draw(st.booleans()) else d["inputs"][1:]
    elif o == "input-change":
        i = draw(st.integers(0, len(d["inputs"]) - 1))
        m["inputs"][i] = draw(st.sampled_from(free))
    elif o == "output-remove":
        m["outputs"] = d["outputs"][:-1] if draw(st.booleans()) else d["outputs"][1:]
    elif o == "move-in-to-out":
        # the last input becomes the first output: the concatenated node sequence is unchanged
        m["inputs"] = d["inputs"][:-1]
        m["outputs"] = [d["inputs"][-1]] + d["outputs"]
    elif o == "move-out-to-in":
        m["outputs"] = d["outputs"][1:]
        m["inputs"] = d["inputs"] + [d["outputs"][0]]
    elif o == "flag":
        f = draw(st.sampled_from(FLAGS))
        default = {"allow-missing-inputs": False, "allow-modified-outputs": False, "always-out-of-date": False,
                   "inherit-env": True, "can-safely-interrupt": True, "control-enabled": True}[f]
        m[f] = not d.get(f, default)
        if explicit and f in ("inherit-env", "can-safely-interrupt", "control-enabled"):
            o = "description"        # documented: not part of an explicit signature
            m = copy.deepcopy(d)
            m["description"] = (d.get("description") or "") + "!"
    elif o == "signature":
        m["signature"] = (d.get("signature") or "") + "z"
    elif o == "description":
        m["description"] = (d.get("description") or "") + "!"
    elif o == "arg-change":
        i = draw(st.integers(0, len(d["args"]) - 1))
        m["args"][i] = d["args"][i] + "q"
    elif o == "arg-add":
        m["args"] = d["args"] + [draw(_word)]
    elif o == "arg-boundary":
        cands = [i for i in range(1, len(d["args"]) - 1) if d["args"][i]]
        if cands:
            i = draw(st.sampled_from(cands))
            m["args"][i + 1] = d["args"][i][-1:] + d["args"][i + 1]
            m["args"][i] = d["args"][i][:-1]
        else:
            m["args"] = d["args"] + ["w"]
            o = "arg-add"
    elif o == "move-args-to-env":
        m["args"] = d["args"][:-2]
        env = {d["args"][-2]: d["args"][-1]}
        env.update(d.get("env") or {})
        m["env"] = env
    elif o == "move-arg-to-deps":
        m["args"] = d["args"][:-1]
        m["depsfiles"] = [d["args"][-1]] + d["depsfiles"]
    elif o == "move-env-to-deps":
        items = list(d["env"].items())
        m["env"] = dict(items[:-1])
        m["depsfiles"] = [items[-1][0], items[-1][1]] + d["depsfiles"]
    elif o == "env":
        env = dict(d.get("env") or {})
        if env and draw(st.booleans()):
            k = draw(st.sampled_from(sorted(env)))
            env[k] = env[k] + "v"
        else:
            env["NEW" + str(len(env))] = "1"
        m["env"] = env
    elif o == "deps-style":
        if d.get("depsfiles"):
            m["deps-style"] = draw(st.sampled_from([s for s in STYLES if s != d["deps-style"]]))
        else:
            m["depsfiles"] = ["x.d"]
            m["deps-style"] = "makefile"
            o = "deps-path"
    elif o == "deps-path":
        if d.get("depsfiles"):
            m["depsfiles"] = [d["depsfiles"][0] + "2"] + d["depsfiles"][1:]
        else:
            m["depsfiles"] = ["x.d"]
            m["deps-style"] = "makefile"
    return m, o


@st.composite
def pair_case(draw):
    d = draw(shell_def())
    m, o = mutate(draw, d)
    return {"kind": "pair", "a": d, "b": m, "what": o}


@st.composite
def process_case(draw):
    return {"kind": "process", "a": draw(shell_def()), "envvar": draw(_word), "cwd": draw(st.sampled_from(["", "sub", "sub/x"]))}


@st.composite
def history_case(draw):
    # (an output may be declared `is-mutated`: only its existence counts - it is never the tampered one, but it
    # may precede the one that is)
    desc = draw(bm.description(max_cmds=6, allow_extra_tools=False, allow_mutated=True))
    shells = [c for c in desc["commands"] if c["tool"] == "shell"]
    target = draw(st.sampled_from(sorted(desc["targets"])))
    needed = [c["name"] for c in bm.needed_commands(desc, desc["targets"][target]) if c["tool"] == "shell"]
    pick = draw(st.sampled_from(needed)) if needed else None
    change = draw(st.sampled_from(["none", "none", "salt", "description", "tamper", "delete-output", "flag", "env"]))
    return {"kind": "history", "desc": desc, "target": target, "cmd": pick, "change": change,
            "jobs": draw(st.sampled_from([None, 4])), "oidx": draw(st.integers(0, 3)), "flag": draw(st.sampled_from(["allow-missing-inputs", "allow-modified-outputs", "can-safely-interrupt", "control-enabled"]))}


def strategy(tier):
    return st.one_of(pair_case(), pair_case(), pair_case(), process_case(), history_case(), history_case())


def write_single(ws, d, filename="build.llbuild"):
    L = ["client:", "  name: basic", "  version: 0", "targets:", '  "": [%s]' % ", ".join(bm.yq(o) for o in d["outputs"]),
         'default: ""', "commands:", "  %s:" % bm.yq(d["name"]), "    tool: shell"]
    if d.get("description") is not None:
        L.append("    description: %s" % bm.yq(d["description"]))
    L.append("    inputs: [%s]" % ", ".join(bm.yq(n) for n in d["inputs"]))
    L.append("    outputs: [%s]" % ", ".join(bm.yq(n) for n in d["outputs"]))
    if d.get("args_str") is not None:
        L.append("    args: %s" % bm.yq(d["args_str"]))
    else:
        L.append("    args: [%s]" % ", ".join(bm.yq(a) for a in d["args"]))
    if d.get("env") is not None:
        L.append("    env:")
        if not d["env"]:
            L[-1] = "    env: {}"
        for k, v in d["env"].items():
            L.append("      %s: %s" % (bm.yq(k), bm.yq(v)))
    if d.get("depsfiles"):
        L.append("    deps: [%s]" % ", ".join(bm.yq(x) for x in d["depsfiles"]))
        L.append("    deps-style: %s" % d["deps-style"])
    for f in FLAGS:
        if f in d:
            L.append("    %s: %s" % (f, "true" if d[f] else "false"))
    if d.get("signature"):
        L.append("    signature: %s" % bm.yq(d["signature"]))
    with open(ws.path(filename), "w") as f:
        f.write("\n".join(L) + "\n")


def signature_of(ws, d, env=None, cwd=None):
    import subprocess
    write_single(ws, d)
    for n in d["inputs"]:
        if not bm.is_virtual(n):
            p = ws.path(n)
            os.makedirs(os.path.dirname(p), exist_ok=True)
            if not os.path.exists(p):
                open(p, "w").close()
    e = ws.env()
    if env:
        e.update(env)
    p = subprocess.run([bm.BSX, "--chdir", ws.dir, "--no-db", "--serial", "--dry", "--print-signatures"],
                       stdout=subprocess.PIPE, stderr=subprocess.PIPE, env=e, cwd=cwd or ws.dir, timeout=60)
    sigs = {}
    for line in p.stdout.decode("latin-1").splitlines():
        t = line.split(" ")
        if t[0] == "sig":
            sigs[bm.unhx(t[1])] = int(t[2])
    if d["name"] not in sigs:
        raise common.HarnessError("no signature printed: rc=%s out=%s err=%s" % (p.returncode, p.stdout[-400:], p.stderr[-400:]))
    return sigs[d["name"]]


def run_case(case, ctx, verbose=False):
    kind = case["kind"]
    if kind in ("pair", "process"):
        ws = bm.Workspace(ctx)
        try:
            if kind == "pair":
                sa = signature_of(ws, case["a"])
                sb = signature_of(ws, case["b"])
                what = case["what"]
                cls = ["pair", "pair:" + what]
                nt = what in ("arg-boundary", "move-in-to-out", "move-out-to-in", "move-args-to-env", "move-arg-to-deps",
                              "move-env-to-deps", "args-form")
                if what == "description":
                    if sa != sb:
                        return Outcome("changing only the description changed the signature (%d -> %d)" % (sa, sb),
                                       nontrivial=nt, classes=cls)
                elif sa == sb:
                    return Outcome("definitions differing in '%s' have the SAME signature %d:\n  a=%s\n  b=%s" % (
                        what, sa, case["a"], case["b"]), nontrivial=nt, classes=cls)
                return Outcome(None, nontrivial=nt, classes=cls)
            sub = ws.path(case["cwd"]) if case["cwd"] else ws.dir
            os.makedirs(sub, exist_ok=True)
            s1 = signature_of(ws, case["a"])
            s2 = signature_of(ws, case["a"], env={"VERIF_NOISE": case["envvar"], "LANG": "C", "HOME": sub}, cwd=sub)
            if s1 != s2:
                return Outcome("the same definition has signature %d in one process and %d in another" % (s1, s2),
                               classes=["process"])
            return Outcome(None, nontrivial=True, classes=["process"])
        finally:
            ws.cleanup()
    # history
    ws = bm.Workspace(ctx)
    try:
        desc = copy.deepcopy(case["desc"])
        for s, text in desc["sources"].items():
            ws.write(s, text)
        bm.write_description(ws, desc)
        r1 = ws.build(target=case["target"], jobs=case["jobs"])
        ev = bm.Evaluator(ws, desc)
        ev.evaluate(desc["targets"][case["target"]])
        if ev.missing_inputs:
            return Outcome(None, classes=["history", "legit-failure"])
        if not r1.ok:
            return Outcome("first build failed: %s" % r1.stderr[-300:], classes=["history"])
        change = case["change"] if case["cmd"] else "none"
        extra_cls = []
        cmd = next((c for c in desc["commands"] if c["name"] == case["cmd"]), None)
        if change == "salt":
            cmd["salt"] = cmd.get("salt", "") + "!"
        elif change == "description":
            cmd["description"] = "new description"
        elif change == "flag":
            cmd[case["flag"]] = not cmd.get(case["flag"], case["flag"] in ("inherit-env", "can-safely-interrupt", "control-enabled"))
        elif change == "env":
            cmd["env"] = {"VERIF_X": "1"}
        elif change in ("tamper", "delete-output"):
            # any of the command's outputs, not only the first (a mutated one is checked for existence only:
            # it may be deleted, not rewritten)
            mut = set(desc.get("nodes", {}))
            cand = [o for o in cmd["outputs"] if not bm.is_virtual(o) and (change == "delete-output" or o not in mut)]
            if not cand:
                return Outcome(None, nontrivial=False, classes=["history", "history:no-output-to-" + change])
            o = cand[case.get("oidx", 0) % len(cand)]
            if change == "tamper":
                ws.write(o, "junk\n")
            else:
                ws.delete(o)
            if o != cmd["outputs"][0]:
                extra_cls.append("history:non-first-output")
            if mut & set(cmd["outputs"][:cmd["outputs"].index(o)]):
                extra_cls.append("history:after-a-mutated-output")
        bm.write_description(ws, desc)
        r2 = ws.build(target=case["target"], jobs=case["jobs"])
        if not r2.ok:
            return Outcome("second build failed: %s" % r2.stderr[-300:], classes=["history", change])
        ran = sorted(set(r2.ran()) | set(r2.started()))
        cls = ["history", "history:" + change] + extra_cls
        needed = bm.needed_commands(desc, desc["targets"][case["target"]])
        prod = bm.producers(desc)
        has_up = cmd is not None and any(i in prod for i in cmd.get("inputs", []))
        has_down = cmd is not None and any(set(cmd["outputs"]) & set(c.get("inputs", [])) for c in needed)
        nt = has_up and has_down
        if change in ("none", "description"):
            if ran:
                return Outcome("a build after %s re-ran %s" % (
                    "no change at all" if change == "none" else "a description-only edit", ran), nontrivial=nt, classes=cls)
        else:
            if case["cmd"] not in ran:
                return Outcome("after '%s' on command %s the next build did not re-run it (ran: %s)" % (
                    change, case["cmd"], ran), nontrivial=nt, classes=cls)
            v, _, _ = bm.check_outputs(ws, desc, desc["targets"][case["target"]])
            if v:
                return Outcome("after '%s': %s" % (change, v), nontrivial=nt, classes=cls)
        return Outcome(None, nontrivial=nt, classes=cls)
    finally:
        ws.cleanup()
