#!/usr/bin/env python3
import importlib
import os
import sys

sys.path.insert(0, os.path.dirname(os.path.abspath(__file__)))
sys.dont_write_bytecode = True


def main():
    if len(sys.argv) < 2:
        print("usage: check <ID> [quick|thorough] [--replay FILE]")
        return 2
    pid = sys.argv[1].upper()
    os.chdir(os.path.dirname(os.path.dirname(os.path.abspath(__file__))))
    mod = importlib.import_module(pid.lower())
    if hasattr(mod, "main"):
        return mod.main(sys.argv[2:])
    import common
    return common.main(mod, sys.argv[2:])


if __name__ == "__main__":
    sys.exit(main())
