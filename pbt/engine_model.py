"""Model of the enginesim world: generators, script serialiser, trace parser and
the reference evaluator (which never looks at epochs or stored state)."""
import os
import subprocess

from hypothesis import strategies as st

from common import BIN, HarnessError

# ------------------------------------------------------------------ helpers


def hx(b):
    if isinstance(b, str):
        return b  # already hex
    return b.hex() if b else "-"


def unhx(h):
    return b"" if h == "-" else bytes.fromhex(h)


# Keys: first byte a letter (so that no key is a numeric literal unless asked
# for), then arbitrary bytes including NUL, 0xff and non-UTF-8.
_TAIL = st.binary(min_size=0, max_size=3) | st.sampled_from(
    [b"", b"\x00", b"\x00x", b"\xff", b" ", b"\xc3\x28", b"1", b"/a b"])
_HEAD = st.sampled_from([bytes([c]) for c in b"ABCDEFGHKLMNPQRSTUVWXYZabcdkxyz"])


@st.composite
def key_pool(draw, n, numeric=False):
    keys = []
    seen = set()
    i = 0
    while len(keys) < n:
        if numeric and draw(st.integers(0, 3)) == 0:
            k = draw(st.sampled_from([b"1", b"01", b"1.0", b" 1", b"1e2", b"-0", b"0x10", b"+5",
                                      b"9223372036854775808", b"100", b"1 ", b"0", b"00"]))
        else:
            k = draw(_HEAD) + draw(_TAIL)
        if k in seen:
            k = k + b"%d" % i
        i += 1
        if k in seen:
            continue
        seen.add(k)
        keys.append(k.hex())
    return keys


_PREFIX = st.sampled_from(["", "76", "00", "ff00", "7631", "ee"])
_MODS = st.sampled_from([1, 2, 3, 251])


@st.composite
def derived_rule(draw, key, avail_leaves, avail_derived, ver, allow_single=True, allow_follow=True,
                 allow_disc=True, allow_force=True, any_keys=None, max_ins=4):
    """A derived rule requesting only keys from avail_* (DAG by construction),
    or from any_keys when generating possibly cyclic graphs."""
    pool = list(avail_leaves) + list(avail_derived) if any_keys is None else list(any_keys)
    pool = [k for k in pool if k != key] if any_keys is None else pool
    n = draw(st.integers(0, min(max_ins, len(pool))))
    chosen = draw(st.permutations(pool))[:n] if pool else []
    ins = []
    for i, k in enumerate(chosen):
        modes = ["r", "r", "r"]
        if allow_single:
            modes.append("s")
        if allow_follow:
            modes.append("m")
        mode = draw(st.sampled_from(modes))
        src = -1
        mod, rem = 1, 0
        r_before = [j for j in range(i) if ins[j]["mode"] == "r"]
        if r_before and draw(st.integers(0, 2)) == 0:
            src = draw(st.sampled_from(r_before))
            mod = draw(st.sampled_from([2, 2, 3]))
            rem = draw(st.integers(0, mod - 1))
        ins.append({"key": k, "mode": mode, "w": draw(st.integers(1, 5)), "src": src, "mod": mod, "rem": rem})
    discs = []
    if allow_disc and avail_leaves and draw(st.integers(0, 2)) == 0:
        nd = draw(st.integers(1, min(2, len(avail_leaves))))
        for k in draw(st.permutations(list(avail_leaves)))[:nd]:
            src = -1
            mod, rem = 1, 0
            r_idx = [j for j in range(len(ins)) if ins[j]["mode"] == "r"]
            if r_idx and draw(st.integers(0, 2)) == 0:
                src = draw(st.sampled_from(r_idx))
                mod = 2
                rem = draw(st.integers(0, 1))
            discs.append({"key": k, "w": draw(st.integers(1, 5)), "src": src, "mod": mod, "rem": rem})
    return {
        "key": key, "leaf": False, "prefix": draw(_PREFIX), "ver": ver,
        "mod": draw(_MODS), "salt": draw(st.integers(0, 7)),
        "force": allow_force and draw(st.integers(0, 7)) == 0,
        "art": draw(st.integers(0, 3)) == 0,
        "ins": ins, "discs": discs,
    }


def leaf_rule(key, prefix=""):
    return {"key": key, "leaf": True, "prefix": prefix}


@st.composite
def dag_program(draw, max_leaves=4, max_derived=8, numeric_keys=False, **kw):
    nl = draw(st.integers(1, max_leaves))
    nd = draw(st.integers(1, max_derived))
    keys = draw(key_pool(nl + nd, numeric=numeric_keys))
    leaves = keys[:nl]
    rules = [leaf_rule(k, draw(_PREFIX)) for k in leaves]
    derived = []
    for i in range(nd):
        rules.append(draw(derived_rule(keys[nl + i], leaves, derived, ver=0, **kw)))
        derived.append(keys[nl + i])
    return rules


# ------------------------------------------------------------------ script


def rule_lines(r):
    if r["leaf"]:
        return ["leaf %s %s" % (r["key"], r["prefix"] or "-")]
    out = ["rule %s %s ver=%d mod=%d salt=%d force=%d art=%d" % (
        r["key"], r["prefix"] or "-", r["ver"], r["mod"], r["salt"], int(r["force"]), int(r["art"]))]
    for i in r["ins"]:
        out.append("in %s %s %d %d %d %d" % (i["key"], i["mode"], i["w"], i["src"], i["mod"], i["rem"]))
    for d in r["discs"]:
        out.append("disc %s %d %d %d %d" % (d["key"], d["w"], d["src"], d["mod"], d["rem"]))
    return out


def build_line(op):
    ch = ",".join(str(c) for c in op.get("choices", [])) or "-"
    s = "build %s mode=%s choices=%s cancel=%s" % (op["key"], op.get("mode", "sync"), ch, op.get("cancel", "none"))
    if op.get("probe"):
        s += " probe=%s" % op["probe"]
    if op.get("nthreads"):
        s += " nthreads=%d" % op["nthreads"]
    return s


def script_for(case, dbpath, dump=False, flush=False, front=None):
    lines = ["config db=%s front=%s dump=%d flush=%d client=%d nosig=%d" % (
        dbpath if case.get("db") else "none", front or case.get("front", "cxx"), int(dump), int(flush),
        case.get("client", 1), int(bool(case.get("nosig"))))]
    for r in case["rules"]:
        lines += rule_lines(r)
    for k, v in sorted(case.get("init", {}).items()):
        lines.append("set %s %d" % (k, v))
    lines.append("restart")
    for op in case["ops"]:
        o = op["op"]
        if o == "set":
            lines.append("set %s %d" % (op["key"], op["v"]))
        elif o == "tamper":
            lines.append("tamper %s %s" % (op["key"], op["v"] or "-"))
        elif o == "restart":
            s = "restart"
            if "client" in op:
                s += " client=%d" % op["client"]
            if "recreate" in op:
                s += " recreate=%d" % int(op["recreate"])
            lines.append(s)
        elif o == "redef":
            lines += rule_lines(op["rule"])
            lines.append("restart")
        elif o == "undef":
            lines.append("undef %s" % op["key"])
            lines.append("restart")
        elif o == "reset":
            lines.append("reset")
        elif o == "build":
            lines.append(build_line(op))
        elif o == "dbexec":
            lines.append("dbexec %s" % op["sql"].encode().hex())
        elif o == "dbwrite":
            lines.append("dbwrite %s" % (op["bytes"] or "-"))
        elif o == "dbdump":
            lines.append("dbdump")
        else:
            raise HarnessError("unknown op %r" % (op,))
    lines.append("end")
    return "\n".join(lines) + "\n"


class RunResult:
    def __init__(self, rc, events, raw, timed_out=False, stderr=""):
        self.rc = rc
        self.events = events
        self.raw = raw
        self.timed_out = timed_out
        self.stderr = stderr


def run_enginesim(script, flavour="rel", timeout=120, env=None, exe="enginesim"):
    if os.environ.get("VERIF_TIMEOUT"):
        timeout = float(os.environ["VERIF_TIMEOUT"])
    e = dict(os.environ)
    e["ASAN_OPTIONS"] = "detect_leaks=0"
    e["TSAN_OPTIONS"] = "halt_on_error=1 exitcode=66 second_deadlock_stack=1"
    if env:
        e.update(env)
    try:
        p = subprocess.run([os.path.join(BIN[flavour], exe)], input=script.encode(), stdout=subprocess.PIPE,
                           stderr=subprocess.PIPE, timeout=timeout, env=e)
    except subprocess.TimeoutExpired as ex:
        raw = (ex.stdout or b"").decode("latin-1")
        return RunResult(-999, parse_trace(raw), raw, timed_out=True,
                         stderr=(ex.stderr or b"").decode("latin-1"))
    raw = p.stdout.decode("latin-1")
    return RunResult(p.returncode, parse_trace(raw), raw, stderr=p.stderr.decode("latin-1"))


def parse_trace(raw):
    """-> list of builds; each build: dict(key, events=[tuple...], end=dict, db=[...]).
    Events outside builds are collected in 'pre' of the following build."""
    builds = []
    cur = None
    loose = []
    engine_events = []
    in_db = False
    db = None
    for line in raw.splitlines():
        t = line.split(" ")
        tag = t[0]
        if tag == "build-begin":
            cur = {"n": int(t[1]), "key": t[2], "mode": t[3].split("=")[1], "events": [], "end": None,
                   "db": None, "pre": loose}
            loose = []
            builds.append(cur)
        elif tag == "build-end":
            end = {}
            for kv in t[2:]:
                k, _, v = kv.partition("=")
                end[k] = v
            cur["end"] = end
            cur_done = cur
            cur = None
        elif tag == "db-begin":
            in_db = True
            db = {"keys": [], "rows": [], "api": [], "info": None, "integrity": [], "errors": [], "epoch": None, "capi": [], "capi-lookup": [], "capi-epoch": []}
        elif tag == "db-end":
            in_db = False
            if builds and builds[-1]["end"] is not None and builds[-1]["db"] is None:
                builds[-1]["db"] = db
            else:
                loose.append(("dbdump", db))
        elif in_db:
            kind = t[1]
            kv = {}
            for f in t[2:]:
                k, _, v = f.partition("=")
                kv[k] = v
            if kind == "key":
                db["keys"].append(kv)
            elif kind == "row":
                db["rows"].append(kv)
            elif kind == "api":
                db["api"].append(kv)
            elif kind == "info":
                db["info"] = kv
            elif kind == "integrity":
                db["integrity"].append(t[2])
            elif kind == "api-epoch":
                db["epoch"] = kv
            elif kind == "api-foreign":
                db["foreign"] = kv
            elif kind in ("capi", "capi-lookup", "capi-epoch"):
                db.setdefault(kind, []).append(kv)
            elif kind == "capi-skipped":
                db["capi-skipped"] = True
            elif kind in ("capi-open-failed", "capi-fetch-failed"):
                db.setdefault("capi-failed", []).append(line)
            else:
                db["errors"].append(line)
        else:
            ev = tuple(t)
            if cur is not None:
                cur["events"].append(ev)
            else:
                loose.append(ev)
    return {"builds": builds, "trailing": loose}


# ------------------------------------------------------------------ reference evaluator


class Cycle(Exception):
    def __init__(self, path):
        self.path = path


class World:
    """External state + program; mirrors enginesim's World."""

    def __init__(self, rules, init=None):
        self.program = {r["key"]: r for r in rules}
        self.ext = dict(init or {})

    def clone(self):
        w = World([], {})
        w.program = dict(self.program)
        w.ext = dict(self.ext)
        return w

    def spec(self, key):
        r = self.program.get(key)
        if r is None:
            return {"key": key, "leaf": True, "prefix": "3f", "undefined": True}
        return r

    nosig = False

    def signature(self, key):
        if self.nosig:
            return 0
        r = self.program.get(key)
        if r is None:
            return 7
        return 11 if r["leaf"] else r["ver"] * 1000003 + 13

    @staticmethod
    def encode(spec, v):
        if spec.get("prefix") == "ee":      # the value is the byte itself, 0 is the EMPTY value
            return "" if v == 0 else "%02x" % v
        return (spec.get("prefix") or "") + "%02x" % v

    def evaluate(self, key, memo=None, stack=None, edges=None, skip_single=False):
        """Clean value (hex) of key in the current external state. Raises Cycle.
        skip_single: ignore single-use edges (they never feed a value and the
        engine, by design, does not follow them for a rule it does not execute)."""
        if memo is None:
            memo = {}
        if stack is None:
            stack = []
        if key in memo:
            return memo[key]
        if key in stack:
            raise Cycle(stack[stack.index(key):] + [key])
        spec = self.spec(key)
        if spec["leaf"]:
            v = self.encode(spec, self.ext.get(key, 0))
            memo[key] = v
            return v
        stack.append(key)
        vals = {}
        requested = []
        total = spec["salt"] * (spec["ver"] + 1)
        for idx, i in enumerate(spec["ins"]):
            if i["src"] >= 0:
                if i["src"] not in vals or vals[i["src"]] % i["mod"] != i["rem"]:
                    continue
            if skip_single and i["mode"] == "s":
                continue
            requested.append(idx)
            if edges is not None:
                edges.setdefault(key, []).append((i["key"], i["mode"]))
            v = self.evaluate(i["key"], memo, stack, edges, skip_single)
            if i["mode"] == "r":
                vals[idx] = int(v[-2:], 16) if v else 0
                total += i["w"] * vals[idx]
        discs = []
        for d in spec["discs"]:
            active = d["src"] < 0
            if not active and d["src"] in vals:
                active = vals[d["src"]] % d["mod"] == d["rem"]
            if active:
                total += d["w"] * self.ext.get(d["key"], 0)
                discs.append(d["key"])
                if edges is not None:
                    edges.setdefault(key, []).append((d["key"], "d"))
        stack.pop()
        v = self.encode(spec, total % spec["mod"])
        memo[key] = v
        return v

    def requests(self, key, memo):
        """(ordered list of (key, mode, idx) the task would request, discovered list) in the
        current state; requires acyclic demanded graph."""
        spec = self.spec(key)
        if spec["leaf"]:
            return [], []
        vals = {}
        req = []
        for idx, i in enumerate(spec["ins"]):
            if i["src"] >= 0:
                if i["src"] not in vals or vals[i["src"]] % i["mod"] != i["rem"]:
                    continue
            req.append((i["key"], i["mode"], idx))
            if i["mode"] == "r":
                vals[idx] = int(self.evaluate(i["key"], memo)[-2:] or "0", 16)
        discs = []
        for d in spec["discs"]:
            active = d["src"] < 0
            if not active and d["src"] in vals:
                active = vals[d["src"]] % d["mod"] == d["rem"]
            if active:
                discs.append(d["key"])
        return req, discs


# ------------------------------------------------------------------ histories

_CHOICES = st.lists(st.integers(0, 63), min_size=0, max_size=10)


@st.composite
def build_op(draw, keys, modes=("sync", "idle", "idle", "mixed")):
    return {"op": "build", "key": draw(st.sampled_from(keys)), "mode": draw(st.sampled_from(list(modes))),
            "choices": draw(_CHOICES)}


@st.composite
def history_case(draw, max_ops=12, allow_restart=True, allow_redef=True, allow_tamper=True,
                 numeric_keys=False, force_db=None, modes=("sync", "idle", "idle", "mixed"),
                 front="cxx", program_kw=None):
    program_kw = dict(program_kw or {})
    rules = draw(dag_program(numeric_keys=numeric_keys, **program_kw))
    leaves = [r["key"] for r in rules if r["leaf"]]
    derived = [r["key"] for r in rules if not r["leaf"]]
    allkeys = leaves + derived
    db = draw(st.integers(0, 9)) < 7 if force_db is None else force_db
    init = {k: draw(st.integers(0, 3)) for k in leaves}
    cur = {r["key"]: r for r in rules}
    ver = 0
    ops = []
    kinds = ["set", "set", "set", "build", "build", "build", "build"]
    if allow_tamper:
        kinds.append("tamper")
    if allow_restart:
        kinds += ["restart", "restart"]
    if allow_redef:
        kinds += ["redef"]
    nops = draw(st.integers(2, max_ops))
    # builds favour the top-most rules but may target anything
    build_keys = derived[-3:] * 3 + allkeys
    for _ in range(nops):
        k = draw(st.sampled_from(kinds))
        if k == "set":
            ops.append({"op": "set", "key": draw(st.sampled_from(leaves)), "v": draw(st.integers(0, 5))})
        elif k == "build":
            ops.append(draw(build_op(build_keys, modes)))
        elif k == "tamper":
            arts = [r["key"] for r in cur.values() if not r["leaf"] and r.get("art")]
            if arts:
                ops.append({"op": "tamper", "key": draw(st.sampled_from(arts)),
                            "v": draw(st.sampled_from(["", "aa", "7600"]))})
        elif k == "restart":
            ops.append({"op": "restart"})
        elif k == "redef":
            idx = draw(st.integers(0, len(derived) - 1))
            if draw(st.integers(0, 5)) == 0 and derived[idx] in cur:
                del cur[derived[idx]]
                ops.append({"op": "undef", "key": derived[idx]})
            else:
                ver += 1
                kw = {k2: v for k2, v in program_kw.items() if k2 not in ("max_leaves", "max_derived")}
                nr = draw(derived_rule(derived[idx], leaves, derived[:idx], ver=ver, **kw))
                cur[derived[idx]] = nr
                ops.append({"op": "redef", "rule": nr})
    ops.append(draw(build_op(build_keys, modes)))
    return {"db": db, "front": front, "rules": rules, "init": init, "ops": ops}


def replay_world(case):
    """Generator over (index, op, world-after-op); world is shared (mutated)."""
    w = World(case["rules"], case.get("init"))
    w.nosig = bool(case.get("nosig"))
    for i, op in enumerate(case["ops"]):
        o = op["op"]
        if o == "set":
            w.ext[op["key"]] = op["v"]
        elif o == "redef":
            w.program[op["rule"]["key"]] = op["rule"]
        elif o == "undef":
            w.program.pop(op["key"], None)
        yield i, op, w


# ------------------------------------------------------------------ trace summaries


def summarize_build(b):
    s = {"created": {}, "tid2key": {}, "requests": {}, "discs": {}, "completes": {}, "status": [],
         "complete_status": [], "uptodate": [], "cycles": [], "errors": [], "deadlock": False,
         "cancelled": False, "needs": {}, "invalid": set(), "provides": [], "result": None,
         "ended": b["end"] is not None, "destroyed": set()}
    for ev in b["events"]:
        tag = ev[0]
        if tag == "create":
            s["created"][ev[1]] = ev[2]
            s["tid2key"][ev[2]] = ev[1]
            s["requests"][ev[1]] = []
            s["discs"][ev[1]] = []
        elif tag == "request":
            s["requests"][s["tid2key"][ev[1]]].append((ev[2], ev[3], int(ev[4])))
        elif tag == "disc":
            s["discs"][s["tid2key"][ev[1]]].append(ev[2])
        elif tag == "complete":
            s["completes"][s["tid2key"][ev[1]]] = (ev[2], ev[3] == "1")
        elif tag == "status":
            s["status"].append((ev[1], int(ev[2])))
            if ev[2] == "2":
                s["complete_status"].append(ev[1])
            elif ev[2] == "1":
                s["uptodate"].append(ev[1])
        elif tag == "cycle":
            s["cycles"].append(list(ev[1:]))
        elif tag == "error":
            s["errors"].append(unhx(ev[1]).decode("latin-1"))
        elif tag == "deadlock":
            s["deadlock"] = True
        elif tag == "cancel-issued":
            s["cancelled"] = True
        elif tag == "needs":
            s["needs"][ev[1]] = (int(ev[2]), ev[3])
        elif tag == "valid" and ev[2] == "0":
            s["invalid"].add(ev[1])
        elif tag == "provide":
            s["provides"].append((s["tid2key"].get(ev[1]), int(ev[2]), ev[3], "" if ev[4] == "-" else ev[4]))
        elif tag == "destroy":
            s["destroyed"].add(ev[1])
    if b["end"] is not None:
        r = b["end"].get("result", "-")
        s["result"] = "" if r == "-" else r
    return s


class DepLedger:
    """Recorded dependencies of each rule's last *completed* execution, as an
    observer can know them from the trace (set semantics + flags)."""

    def __init__(self):
        self.deps = {}

    def update(self, summary):
        for k in summary["complete_status"]:
            fl = {"r": 0, "m": 1, "s": 2}
            self.deps[k] = [(key, fl[mode]) for key, mode, _ in summary["requests"].get(k, [])] + \
                           [(d, 0) for d in summary["discs"].get(k, [])]


# ------------------------------------------------------------------ database oracle


class CompletionLedger:
    """What the database must contain: for every key the last completion the engine
    *processed* (status IsComplete seen), with the dependency list of that same
    execution and the engine epochs, all taken from the trace."""

    def __init__(self):
        self.rows = {}

    def clear(self):
        self.rows = {}

    def update(self, summary, world, epoch, strict_computed=True):
        fl = {"r": 0, "m": 1, "s": 2}
        for k in summary["complete_status"]:
            if k not in summary["completes"]:
                continue
            val, force = summary["completes"][k]
            val = "" if val == "-" else val
            prev = self.rows.get(k)
            changed = prev is None or force or prev["value"] != val
            reqs = summary["requests"].get(k, [])
            self.rows[k] = {
                "value": val,
                "sig": world.signature(k),
                "built": epoch,
                "computed": epoch if changed else prev["computed"],
                "computed_alt": epoch,
                "reqs": [(key, fl[mode]) for key, mode, _ in reqs],
                "discs": [(d, 0) for d in summary["discs"].get(k, [])],
                "cond": self._cond_pairs(world.spec(k), reqs),
            }

    @staticmethod
    def _cond_pairs(spec, reqs):
        """(src key, dependent key) pairs: the dependent was requested only after src arrived."""
        out = []
        if spec.get("leaf"):
            return out
        for key, mode, iid in reqs:
            idx = (iid - 3) // 7
            if idx < len(spec["ins"]) and spec["ins"][idx]["src"] >= 0:
                out.append((spec["ins"][spec["ins"][idx]["src"]]["key"], key))
        return out


def check_capi_db(db):
    """What llb_database_* (get_keys_and_results, and lookup_rule_result per key) returns against what a fresh
    core::BuildDB returns for the same file (the 'api' rows). -> (violation or None, number of keys sharing a
    prefix up to their first NUL byte with another key)"""
    if db is None or db.get("info") is None or db.get("capi-skipped"):
        return None, 0
    if db.get("capi-failed"):
        return "llb_database_* failed on a file core::BuildDB reads: %s" % db["capi-failed"][0], 0
    norm = lambda k: "" if k == "-" else k
    want = {}
    for a in db["api"]:
        deps = [] if a["deps"] == "-" else [norm(d.rpartition(":")[0]) for d in a["deps"].split(",")]
        want[norm(a["key"])] = (norm(a["value"]), a["built"], a["computed"], deps)
    if db["epoch"] and db["epoch"].get("ok") == "1":
        ce = db["capi-epoch"]
        if not ce or ce[0]["epoch"] != db["epoch"]["epoch"]:
            return "llb_database_get_epoch says %s, BuildDB::getCurrentEpoch %s" % (ce, db["epoch"]["epoch"]), 0
    for kind, what in (("capi", "llb_database_get_keys_and_results"), ("capi-lookup", "llb_database_lookup_rule_result")):
        got = {}
        for a in db[kind]:
            if kind == "capi-lookup" and a.get("found") != "1":
                return "%s: key %s not found although it has a stored result" % (what, a["key"]), 0
            deps = [] if a["deps"] == "-" else [norm(d) for d in a["deps"].split(",")]
            k = norm(a["key"])
            if k in got:
                return "%s returned key %s twice (stored keys: %s)" % (what, k, sorted(want)), 0
            got[k] = (norm(a["value"]), a["built"], a["computed"], deps)
        if got != want:
            diff = sorted(k for k in set(got) | set(want) if got.get(k) != want.get(k))
            return "%s differs from core::BuildDB for key(s) %s: C %s, C++ %s" % (
                what, diff, [got.get(k) for k in diff[:2]], [want.get(k) for k in diff[:2]]), 0
    pre = {}
    for k in want:
        b = bytes.fromhex(k)
        if b"\x00" in b:
            pre.setdefault(b.split(b"\x00")[0], []).append(k)
    return None, sum(len(v) for v in pre.values() if len(v) > 1)


def check_db(db, ledger, iteration=None, strict_computed=True):
    """db: parsed dump (see parse_trace). -> violation string or None."""
    if db is None:
        return "no database dump"
    if db["errors"]:
        return "database dump error: %s" % db["errors"][0]
    if db["integrity"] != ["6f6b"]:
        return "PRAGMA integrity_check: %s" % [unhx(x) for x in db["integrity"]]
    fo = db.get("foreign")
    if fo and db["info"] is not None and (fo["first"] != "0" or fo["second"] != "0" or fo["getkeys"] != "0"):
        return ("a BuildDB handle of ANOTHER client version that must not recreate the file was not rejected: first "
                "operation ok=%s, second ok=%s (epoch %s), getKeys ok=%s (%s keys)" % (
                    fo["first"], fo["second"], fo["epoch"], fo["getkeys"], fo["nkeys"]))
    id2key = {}
    for k in db["keys"]:
        if k["id"] in id2key:
            return "duplicate key id %s" % k["id"]
        id2key[k["id"]] = k["key"]
    if len(set(id2key.values())) != len(id2key):
        return "two key ids share one key: %s" % sorted(id2key.items())
    rows = {}
    for r in db["rows"]:
        if r["keyid"] not in id2key:
            return "rule_results row %s refers to a key id missing from key_names" % r["keyid"]
        key = id2key[r["keyid"]]
        if key in rows:
            return "two rows for key %s" % key
        deps = []
        if r["deps"] != "-":
            for d in r["deps"].split(","):
                did, _, f = d.partition(":")
                if did not in id2key:
                    return "row %s: dependency id %s does not resolve in key_names" % (key, did)
                deps.append((id2key[did], int(f)))
        if int(r["rawlen"]) % 8:
            return "row %s: dependency blob length %s" % (key, r["rawlen"])
        rows[key] = {"value": "" if r["value"] == "-" else r["value"], "sig": int(r["sig"]), "built": int(r["built"]),
                     "computed": int(r["computed"]), "deps": deps}
    api = {}
    for a in db["api"]:
        deps = []
        if a["deps"] != "-":
            for d in a["deps"].split(","):
                dk, _, f = d.rpartition(":")
                deps.append(("" if dk == "-" else dk, int(f)))
        k = "" if a["key"] == "-" else a["key"]
        if k in api:
            return "BuildDB::getKeysWithResult returned key %s twice" % k
        api[k] = {"value": "" if a["value"] == "-" else a["value"], "sig": int(a["sig"]), "built": int(a["built"]),
                  "computed": int(a["computed"]), "deps": deps}
    norm = lambda k: "" if k == "-" else k
    rows = {norm(k): v for k, v in rows.items()}
    for v in rows.values():
        v["deps"] = [(norm(k), f) for k, f in v["deps"]]
    if api != rows:
        only = sorted(set(api) ^ set(rows))
        diff = [k for k in api if k in rows and api[k] != rows[k]]
        return "a fresh BuildDB reads back something else than the raw rows: only-one-side=%s differing=%s %s" % (
            only, diff, [(api[k], rows[k]) for k in diff[:1]])
    if db["info"] is None:
        return "info row missing"
    it = int(db["info"]["iteration"])
    if iteration is not None and it != iteration:
        return "stored iteration %d != engine epoch %d" % (it, iteration)
    for key, r in rows.items():
        if r["built"] > it or r["computed"] > it:
            return "row %s has epochs (%d,%d) beyond the stored iteration %d" % (key, r["built"], r["computed"], it)
        if r["computed"] > r["built"]:
            return "row %s: computed_at %d > built_at %d" % (key, r["computed"], r["built"])
    want = ledger.rows
    if set(want) != set(rows):
        return "database keys %s != completed keys %s" % (sorted(rows), sorted(want))
    for key, wv in want.items():
        r = rows[key]
        if r["value"] != wv["value"]:
            return "row %s holds value %s but the last processed completion produced %s" % (key, r["value"], wv["value"])
        if r["sig"] != wv["sig"]:
            return "row %s holds signature %d, rule signature at completion was %d" % (key, r["sig"], wv["sig"])
        if r["built"] != wv["built"]:
            return "row %s built_at %d, completion was processed in epoch %d" % (key, r["built"], wv["built"])
        if strict_computed:
            if r["computed"] != wv["computed"]:
                return "row %s computed_at %d, expected %d" % (key, r["computed"], wv["computed"])
        # (histories with cancelled builds: a completion swallowed by the cancellation drain may
        # legitimately be the epoch at which the value was first computed -- not checked)
        exp = wv["reqs"] + wv["discs"]
        if sorted(r["deps"]) != sorted(exp):
            return "row %s dependency list %s is not the list of that execution %s" % (key, r["deps"], exp)
        nreq = len(wv["reqs"])
        if sorted(r["deps"][:nreq]) != sorted(wv["reqs"]) or r["deps"][nreq:] != wv["discs"]:
            return "row %s: discovered dependencies are not recorded after the requested ones, in order: %s vs %s+%s" % (
                key, r["deps"], wv["reqs"], wv["discs"])
        order = [k for k, _ in r["deps"][:nreq]]
        for src, dep in wv["cond"]:
            if order.index(src) > order.index(dep):
                return "row %s: %s recorded before %s although it was requested on %s's value" % (key, dep, src, src)
    return None
