"""C19 -- no input file can crash, hang or over-read a parser (libFuzzer x5, ASan+UBSan)."""
import glob
import hashlib
import json
import os
import re
import shutil
import subprocess
import sys
import time

import common

ID = "C19"
LEVEL = "exploration"
TARGETS = ["ninja_lexer", "ninja_loader", "makefile_deps", "depinfo", "buildfile"]
RULE = ("Five coverage-guided libFuzzer targets built with ASan+UBSan and asserts on; every input is presented in an "
        "exact-size heap buffer without terminator. ninja_lexer: all four lexing modes (fixed or switching per "
        "token) with an in-target oracle (tokens inside the buffer, non-overlapping, gaps only of bytes the lexer "
        "is specified to skip, exactly one EndOfFile whose start is the true end, <= size+2 calls). ninja_loader: "
        "ManifestLoader over an in-memory table of up to four files decoded from the input. makefile_deps / "
        "depinfo: both parser settings; oracle: every callback StringRef lies inside the buffer, callback count "
        "linear in size. buildfile: the bytes are decoded into a YAML tree (scalars/sequences/mappings, keys from "
        "a dictionary of every section/tool/attribute name plus junk, wrong kinds anywhere, missing/duplicate/"
        "mis-ordered sections), serialised by the harness into well-formed YAML and loaded through "
        "BuildSystem::loadDescription on an in-memory file system. Each target first replays its committed "
        "regression inputs, then runs N workers with -runs=R from the committed seed corpus and from an empty "
        "corpus. Violation = crash-* artefact (sanitizer report, assert, oracle trap), or timeout-* for the "
        "linear-time targets confirmed by 10 re-runs. Non-trivial = an execution that reached a parser callback "
        "other than error (counted in-target); distinct_nontrivial = number of coverage-distinct inputs libFuzzer "
        "kept in its corpora.")
ASSUMPTIONS = [
    "leak detection is off (the Ninja manifest is bump-allocated by design)",
    "raw-byte fuzzing of the vendored LLVM YAML parser is out of scope (statement: well-formed YAML of any shape)",
    "scalars in generated build descriptions contain no NUL byte (StringList asserts on it; shape, not content, is quantified)",
]

VERIF = common.VERIF
BIN = os.path.join(common.BIN["asan"])


def budgets(tier):
    # (workers per target, runs per worker) calibrated to ~25 s (quick) on this image
    if tier == "quick":
        return 3, {"ninja_lexer": 900000, "ninja_loader": 120000, "makefile_deps": 1500000, "depinfo": 3000000,
                   "buildfile": 120000}, 60
    return 16, {"ninja_lexer": 40000000, "ninja_loader": 12000000, "makefile_deps": 60000000, "depinfo": 100000000,
                "buildfile": 5000000}, 1200


def env():
    e = dict(os.environ)
    e["ASAN_OPTIONS"] = "detect_leaks=0:abort_on_error=0:symbolize=1"
    e["UBSAN_OPTIONS"] = "print_stacktrace=1"
    return e


def run_regress(target, work):
    """Replay committed regression inputs (they must pass)."""
    files = sorted(glob.glob(os.path.join(VERIF, "fuzz", "regress", target, "*")))
    bad = []
    for f in files:
        p = subprocess.run([os.path.join(BIN, "fz_" + target), f], stdout=subprocess.PIPE, stderr=subprocess.STDOUT,
                           env=env(), cwd=work, timeout=120)
        if p.returncode != 0:
            bad.append((f, p.stdout.decode("latin-1")[-1500:]))
    return len(files), bad


def replay(target, path):
    p = subprocess.run([os.path.join(BIN, "fz_" + target), path], stdout=subprocess.PIPE, stderr=subprocess.STDOUT,
                       env=env(), timeout=300)
    return p.returncode, p.stdout.decode("latin-1")


def main(argv):
    tier = os.environ.get("VERIF_TIER", "quick")
    rp = None
    args = list(argv)
    while args:
        a = args.pop(0)
        if a in ("quick", "thorough"):
            tier = a
        elif a == "--replay":
            rp = args.pop(0)
    seed = int(os.environ.get("VERIF_SEED", "0") or 0)
    t0 = time.time()
    common.ensure_built(["asan"])
    if rp:
        base = os.path.basename(rp)
        tgt = next((t for t in TARGETS if base.startswith("C19-" + t)), None)
        if tgt is None:
            tgt = next((t for t in TARGETS if ("/" + t + "/") in rp), TARGETS[0])
        rc, out = replay(tgt, rp)
        print(out[-3000:])
        if rc != 0:
            print("VIOLATION property=C19 replay=%s" % rp)
            return 1
        print("replay: property held on this input")
        return 0

    workers, runs, cap = budgets(tier)
    scale = float(os.environ.get("VERIF_FUZZ_SCALE", "1"))
    ctx = common.Ctx("c19")
    violations = []
    stats = {}
    samples = []
    procs = []
    regress_total = 0
    for t in TARGETS:
        wdir = os.path.join(ctx.dir, t)
        os.makedirs(wdir)
        n, bad = run_regress(t, wdir)
        regress_total += n
        for f, out in bad:
            violations.append((f, "regression input fails again: %s" % out[-600:]))
        for w in range(workers):
            corpus = os.path.join(wdir, "corpus%d" % w)
            os.makedirs(corpus)
            # worker 0 starts from an empty corpus, the others from the committed seeds
            if w != 0:
                for f in glob.glob(os.path.join(VERIF, "fuzz", "corpus", t, "*")):
                    shutil.copy(f, corpus)
            art = os.path.join(wdir, "art%d" % w) + "/"
            os.makedirs(art)
            statf = os.path.join(wdir, "stats%d" % w)
            e = env()
            e["FZ_STATS"] = statf
            s = (seed * 1000 + TARGETS.index(t) * 50 + w) % (2**31 - 1) + 1
            cmd = [os.path.join(BIN, "fz_" + t), "-seed=%d" % s, "-runs=%d" % int(runs[t] * scale), "-entropic=0",
                   "-max_len=%d" % (4096 if t != "buildfile" else 2048), "-timeout=25",
                   "-max_total_time=%d" % cap, "-artifact_prefix=" + art, "-print_final_stats=1"]
            dic = {"ninja_lexer": "ninja.dict", "ninja_loader": "ninja.dict", "makefile_deps": "deps.dict"}.get(t)
            if dic and w % 2 == 1:
                # every other worker mutates with a dictionary of the format's keywords and fragments
                cmd.append("-dict=" + os.path.join(VERIF, "fuzz", dic))
            cmd.append(corpus)
            log = open(os.path.join(wdir, "log%d" % w), "wb")
            procs.append((t, w, subprocess.Popen(cmd, stdout=log, stderr=subprocess.STDOUT, env=e, cwd=wdir), log,
                          art, corpus, statf))
    total_execs = 0
    total_corpus = 0
    total_nontrivial = 0
    shortfall = []
    for t, w, p, log, art, corpus, statf in procs:
        p.wait()
        log.close()
        text = open(log.name, "rb").read().decode("latin-1")
        st = stats.setdefault(t, {"execs": 0, "corpus": 0, "cov": 0, "nontrivial": 0, "errors": 0,
                                  "ends_in_escape": 0, "artifacts": 0})
        m = re.search(r"stat::number_of_executed_units:\s*(\d+)", text)
        execs = int(m.group(1)) if m else 0
        st["execs"] += execs
        covs = re.findall(r"cov: (\d+)", text)
        if covs:
            st["cov"] = max(st["cov"], int(covs[-1]))
        ncorp = len(os.listdir(corpus))
        st["corpus"] += ncorp
        if os.path.exists(statf):
            for line in open(statf):
                for k, v in re.findall(r"(\w+)=(\d+)", line):
                    if k in ("nontrivial", "errors", "ends_in_escape"):
                        st[k] += int(v)
        if execs < 0.9 * runs[t] * scale and not os.listdir(art):
            shortfall.append("%s/%d: %d of %d runs (time cap)" % (t, w, execs, int(runs[t] * scale)))
        for a in sorted(os.listdir(art)):
            st["artifacts"] += 1
            src = os.path.join(art, a)
            if a.startswith("crash-") or a.startswith("leak-"):
                kind = "crash"
            elif a.startswith("timeout-") and t in ("ninja_lexer", "makefile_deps", "depinfo"):
                # confirm by re-running
                slow = 0
                for _ in range(10):
                    ts = time.time()
                    replay(t, src)
                    if time.time() - ts > 20:
                        slow += 1
                if slow < 10:
                    continue
                kind = "timeout"
            else:
                continue   # oom / slow-unit: load noise
            os.makedirs(os.path.join(VERIF, "replays"), exist_ok=True)
            dst = os.path.join(VERIF, "replays", "C19-%s-%s" % (t, a))
            shutil.copy(src, dst)
            rc, out = replay(t, dst)
            msg = [l for l in out.splitlines() if "ORACLE" in l or "ERROR" in l or "SUMMARY" in l or "Assertion" in l]
            violations.append((dst, "%s %s: %s" % (t, kind, " | ".join(msg[:4]))))
        if w == 1 and len(samples) < 6:
            for f in sorted(os.listdir(corpus))[:1]:
                b = open(os.path.join(corpus, f), "rb").read()[:160]
                samples.append({"target": t, "input_hex": b.hex()})
    for t in TARGETS:
        total_execs += stats[t]["execs"]
        total_corpus += stats[t]["corpus"]
        total_nontrivial += stats[t]["nontrivial"]
    ctx.cleanup()
    wall = time.time() - t0

    class P:
        pass
    P.ID, P.LEVEL, P.ASSUMPTIONS = ID, LEVEL, ASSUMPTIONS
    coverage = {
        "evaluations": total_execs + regress_total,
        "distinct_nontrivial": total_corpus,
        "rule": RULE,
        "samples": samples,
        "per_target": stats,
        "executions_reaching_a_parser_callback": total_nontrivial,
        "regression_inputs_replayed": regress_total,
        "budget_shortfall": shortfall,
        "workers_per_target": workers,
    }
    # de-duplicate violations by message
    seen = set()
    uniq = []
    for path, msg in violations:
        key = re.sub(r"0x[0-9a-f]+|\d+", "N", msg)[:200]
        if key in seen:
            continue
        seen.add(key)
        uniq.append((path, msg))
    common.write_evidence(P, tier, seed, coverage, wall, len(uniq))
    print("C19 %s: %d executions, %d corpus inputs, %d reached a callback, %.1fs; per target: %s" % (
        tier, total_execs, total_corpus, total_nontrivial, wall,
        json.dumps({t: (stats[t]["execs"], stats[t]["cov"]) for t in TARGETS})))
    if shortfall:
        print("budget shortfall (time cap hit): %s" % shortfall)
    if uniq:
        for path, msg in uniq[:6]:
            print("violation detail: %s" % msg[:1500])
            print("VIOLATION property=C19 replay=%s" % path)
        return 1
    if total_execs < 1000:
        sys.stderr.write("HARNESS ERROR: fuzzers did not run\n")
        return 2
    return 0
