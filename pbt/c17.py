"""C17 -- Ninja manifests mean what Ninja says they mean."""
import json
import os
import shutil
import subprocess

from hypothesis import strategies as st

import common
from common import Outcome, BIN
import val

ID = "C17"
LEVEL = "exploration"
FLAVOURS = ["rel", "asan"]
TARGETS = ["ninjadump", "valtool"]
RULE = ("Two generated families. manifest: a grammar-based generator builds a structured Ninja manifest -- file-level "
        "bindings, pools, rules with all parameters (command, description, depfile, deps, generator, restat, rspfile, "
        "rspfile_content, pool; rule variables referring to other rule variables acyclically), build statements with "
        "1-3 outputs and explicit / implicit / order-only inputs, build-level bindings that shadow file-level ones, "
        "comment / blank / blanks-only lines after statements and their blocks, '${x}'/'$x' nesting, '$$ $: $ ' escapes, '$'+LF continuations with indentation, identifiers that contain or "
        "extend keywords (builder, subninjas, pool1, default_, rules), paths with spaces, quotes, '$', ':' and bytes "
        "0x80-0xFF, and include (shared scope) / subninja (child scope, using and shadowing the parent's rules and "
        "variables) trees 0-2 deep -- LF line endings, every file-level variable bound before the first build "
        "statement of its file and never re-bound. The text is loaded by llbuild (ninjadump: hex dump of the loaded "
        "Manifest) and by the installed `ninja` (-t compdb). Oracle: a Python implementation of Ninja's evaluation "
        "rules computes every field of every build statement; the expanded command must equal ninja's own output "
        "(evaluator cross-validated on every case, with ninja's quoting set) and llbuild's dump must equal the "
        "evaluator's outputs/inputs/implicit/order-only lists, command (with llbuild's quoting set), description, "
        "depfile, rspfile(+content), pool, generator/restat flags, with no error reported. quoting: for arbitrary "
        "non-empty NUL-free byte strings p, `sh -c 'printf %s <shellEscaped(p)>'` must print p. Non-trivial = a "
        "manifest with a rule variable resolved through >= 2 scope levels, or an include/subninja, or a path needing "
        "shell quoting inside $in/$out; distinct = sha1 of the case.")
ASSUMPTIONS = ["only manifests the installed ninja 1.11 accepts are judged",
               "a build's own bindings are not referenced from its own path list; `default` statements are not generated"]

NINJA = shutil.which("ninja") or "/usr/bin/ninja"
NINJADUMP = os.path.join(BIN["rel"], "ninjadump")

LL_SAFE = set(b"abcdefghijklmnopqrstuvwxyzABCDEFGHIJKLMNOPQRSTUVWXYZ1234567890-_/:@%+=.,")
NJ_SAFE = set(b"abcdefghijklmnopqrstuvwxyzABCDEFGHIJKLMNOPQRSTUVWXYZ0123456789_+-./")


def budget(tier):
    return 25000 if tier == "quick" else 600000


def shell_quote(b, safe):
    if all(c in safe for c in b):
        return b
    return b"'" + b.replace(b"'", b"'\\''") + b"'"


# ------------------------------------------------------------------ templates
# piece: ["lit", bytes-hex] | ["var", name, braced] | ["esc", "$"|" "|":"] | ["cont", nspaces]

VARNAMES = ["v1", "v2", "cflags", "builder", "subninjas", "subninjx", "pool1", "default_", "rules", "x-y", "a.b"]
RULEPARAMS = ["command", "description", "depfile", "deps", "generator", "restat", "rspfile", "rspfile_content", "pool"]

_litword = st.sampled_from([b"a", b"-O2", b"foo.c", b"x y", b"q'uote", b"\"dq\"", b"\xc3\xa9", b"\xff", b"a=b", b"#h",
                            b"(p)", b"k;l", b"-I.", b"~t", b"a:b", b"dir/f", b"*", b"",
                            # bytes next to the letters in ASCII: none of them continues a '$name' reference
                            b"[i]", b"]", b"^x", b"`c`", b"\\n", b"@", b"{b}"])


@st.composite
def template(draw, names, path=False, allow_cont=True, maxn=4):
    n = draw(st.integers(1, maxn))
    out = []
    for _ in range(n):
        k = draw(st.integers(0, 9))
        if k < 5 or not names:
            w = draw(_litword)
            if path:
                w = w.replace(b"*", b"s") or b"p"
            out.append(["lit", w.hex()])
        elif k < 8:
            nm = draw(st.sampled_from(names))
            braced = draw(st.booleans()) or "." in nm
            out.append(["var", nm, braced])
        elif k == 8:
            out.append(["esc", draw(st.sampled_from(["$", " ", ":"]))])
        elif allow_cont:
            out.append(["cont", draw(st.integers(0, 4))])
            started = any(q[0] in ("var", "esc") or (q[0] == "lit" and bytes.fromhex(q[1]).strip(b" ")) for q in out[:-1])
            # (only once the value has begun: before its first character llbuild's lexer treats the
            # continuation and the tab as white space between tokens, where Ninja rejects most tabs anyway)
            if not path and started and draw(st.integers(0, 3)) == 0:
                # a continuation swallows the BLANKS that follow it, nothing else: a tab stays
                out.append(["lit", b"\t".hex()])
        if not path and draw(st.integers(0, 2)) == 0:
            out.append(["lit", b" ".hex()])
    if path:
        # a path must not END in a continuation: the blanks it swallows would include the separator
        while out and out[-1][0] == "cont":
            out.pop()
    return out


def render(tpl, path):
    out = bytearray()
    for i, p in enumerate(tpl):
        if p[0] == "lit":
            for c in bytes.fromhex(p[1]):
                if c == ord("$"):
                    out += b"$$"
                elif path and c == ord(" "):
                    out += b"$ "
                elif path and c == ord(":"):
                    out += b"$:"
                elif path and c == ord("|"):
                    out += b"p"
                else:
                    out.append(c)
        elif p[0] == "var":
            simple_ok = all(ch.isalnum() or ch in "_-" for ch in p[1])
            # an unbraced reference must not be followed by an identifier character: look at the
            # first byte the following pieces render to
            follow_ident = False
            for nxt in tpl[i + 1:]:
                if nxt[0] == "lit":
                    b = bytes.fromhex(nxt[1])
                    if not b:
                        continue
                    follow_ident = b[0] < 0x80 and (chr(b[0]).isalnum() or chr(b[0]) in "_-")
                break
            if p[2] or not simple_ok or follow_ident:
                out += b"${" + p[1].encode() + b"}"
            else:
                out += b"$" + p[1].encode()
        elif p[0] == "esc":
            out += b"$" + p[1].encode()
        elif p[0] == "cont":
            out += b"$\n" + b" " * (p[1] + 1)
    return bytes(out)


def evaluate(tpl, lookup, value=True):
    """value=True: the template is the right-hand side of a binding (leading blanks are skipped
    by the lexer); a '$'+newline continuation swallows the blanks that follow it."""
    out = bytearray()
    skip_ws = value
    for p in tpl:
        if p[0] == "lit":
            b = bytes.fromhex(p[1])
            if skip_ws:
                b = b.lstrip(b" ")
                if not b:
                    continue
            skip_ws = False
            out += b
        elif p[0] == "var":
            skip_ws = False
            out += lookup(p[1])
        elif p[0] == "esc":
            skip_ws = False
            out += p[1].encode()
        elif p[0] == "cont":
            skip_ws = True
    return bytes(out)


# ------------------------------------------------------------------ manifest model


@st.composite
def manifest_file(draw, fid, depth, parent_vars, parent_rules, counter):
    """-> dict(name, stmts). counter: shared mutable [next out id, next file id]."""
    stmts = []
    my_vars = []
    names = list(parent_vars)
    # variables first (never re-bound, always before the first build statement of this file)
    for _ in range(draw(st.integers(0, 3))):
        nm = draw(st.sampled_from(VARNAMES))
        if nm in my_vars:
            continue
        if nm in parent_vars and fid == "inc":
            continue      # an include shares its parent's scope: re-binding there would be a re-bind
        stmts.append({"k": "var", "name": nm, "value": draw(template(names, allow_cont=True))})
        my_vars.append(nm)
        names.append(nm)
    pools = []
    if draw(st.integers(0, 3)) == 0:
        counter[0] += 1
        pn = "pool%d_%d" % (depth, counter[0])
        stmts.append({"k": "pool", "name": pn, "depth": draw(st.integers(1, 4))})
        pools.append(pn)
    rules = list(parent_rules)
    my_rules = []
    for _ in range(draw(st.integers(0 if parent_rules else 1, 2))):
        rn = draw(st.sampled_from(["cc", "link", "rule1", "builder", "r-2", "pool"])) + ("_%d" % counter[1] if draw(st.booleans()) else "")
        if rn in [r["name"] for r in my_rules]:
            continue
        if rn in [r["name"] for r in rules] and fid == "inc":
            continue     # duplicate rule in a shared scope is an error in both
        params = {}
        refs = names + ["in", "out"]
        # command may reference other rule variables (acyclic: description/depfile/... never reference command)
        others = []
        for prm in draw(st.permutations(RULEPARAMS[1:]))[:draw(st.integers(0, 4))]:
            if prm == "deps":
                continue
            if prm == "pool":
                if pools:
                    params["pool"] = [["lit", pools[0].encode().hex()]]
                continue
            if prm in ("generator", "restat"):
                params[prm] = [["lit", b"1".hex()]]
                continue
            params[prm] = [["lit", prm[:3].encode().hex()]] + draw(template(refs + others, allow_cont=False, maxn=3))
            if prm == "depfile" and draw(st.booleans()):
                params["deps"] = [["lit", b"gcc".hex()]]
            others.append(prm)
        if "rspfile_content" in params and "rspfile" not in params:
            params["rspfile"] = [["lit", b"out.rsp".hex()]]
        if "rspfile" in params and "rspfile_content" not in params:
            params["rspfile_content"] = [["lit", b"content".hex()]]
        if "deps" in params and "depfile" not in params:
            del params["deps"]
        params["command"] = [["lit", b"cmd".hex()], ["lit", b" ".hex()]] + draw(
            template(refs + [o for o in others if o not in ("pool",)], allow_cont=True, maxn=6))
        # ninja 1.11 reports a "cycle in rule variables" as soon as one expansion looks the same rule
        # variable up twice (its lookup list is never popped): reference each rule variable at most
        # once per expansion tree so that ninja accepts the manifest
        seen_refs = set()
        for prm in ["command"] + [q for q in params if q != "command"]:
            tpl2 = []
            for piece in params[prm]:
                if piece[0] == "var" and piece[1] in RULEPARAMS:
                    if piece[1] in seen_refs:
                        tpl2.append(["lit", b"r".hex()])
                        continue
                    seen_refs.add(piece[1])
                tpl2.append(piece)
            params[prm] = tpl2
        rule = {"k": "rule", "name": rn, "params": params}
        stmts.append(rule)
        my_rules.append(rule)
        rules = [r for r in rules if r["name"] != rn] + [rule]
    # builds and nested files
    nb = draw(st.integers(1, 3))
    for _ in range(nb):
        if depth < 2 and draw(st.integers(0, 3)) == 0:
            counter[1] += 1
            myid = counter[1]
            kind = draw(st.sampled_from(["include", "subninja"]))
            sub = draw(manifest_file("inc" if kind == "include" else "sub", depth + 1, names, rules, counter))
            sub["name"] = "f%d.ninja" % myid
            stmts.append({"k": kind, "file": sub})
            if kind == "include":
                # the included file's bindings and rules land in this scope
                for s2 in sub["stmts"]:
                    if s2["k"] == "var":
                        names.append(s2["name"])
                    if s2["k"] == "rule":
                        rules = [r for r in rules if r["name"] != s2["name"]] + [s2]
            continue
        usable = rules + [{"name": "phony", "params": {}, "k": "rule"}]
        rule = draw(st.sampled_from(usable))
        counter[0] += 1
        oid = counter[0]
        nout = draw(st.sampled_from([1, 1, 2, 3]))
        outs = [[["lit", ("o%d_%d" % (oid, j)).encode().hex()]] + (draw(template(names, path=True, allow_cont=False, maxn=2))
                                                                   if draw(st.integers(0, 2)) == 0 else [])
                for j in range(nout)]
        mk = lambda: [["lit", draw(st.sampled_from([b"i", b"src/s", b"in.c"])).hex()]] + draw(
            template(names, path=True, allow_cont=draw(st.integers(0, 5)) == 0, maxn=2))
        ins = [mk() for _ in range(draw(st.integers(0, 3)))]
        imp = [mk() for _ in range(draw(st.integers(0, 2)))]
        oo = [mk() for _ in range(draw(st.integers(0, 2)))]
        binds = []
        used_in_paths = {pc[1] for tpl in outs + ins + imp + oo for pc in tpl if pc[0] == "var"}
        for _ in range(draw(st.integers(0, 2))):
            # (also bindings that try to shadow the built-in $in / $out / $in_newline: the built-ins win)
            bn = draw(st.sampled_from(VARNAMES + ["description", "extra", "in", "out", "in_newline"]))
            if bn in [b[0] for b in binds] or bn in used_in_paths:
                # (a build's own bindings are not referenced from its own path list: the manual is
                # silent, ninja expands them, llbuild does not -- domain choice, see DESIGN.md)
                continue
            binds.append([bn, draw(template(names, allow_cont=True))])
        stmts.append({"k": "build", "outs": outs, "rule": rule["name"], "ins": ins, "implicit": imp, "orderonly": oo,
                      "binds": binds})
    return {"name": "build.ninja", "stmts": stmts}


@st.composite
def manifest_case(draw):
    counter = [0, 0]
    f = draw(manifest_file("main", 0, [], [], counter))

    # lines that mean nothing to Ninja after a statement (and its indented block): an indented comment, a
    # line of blanks only, a comment at column 0, an empty line
    def decorate(ff):
        for s_ in ff["stmts"]:
            if draw(st.integers(0, 3)) == 0:
                s_["tail"] = draw(st.sampled_from(["icomment", "iblank", "comment", "blank"]))
            if s_["k"] in ("rule", "build", "pool") and draw(st.integers(0, 5)) == 0:
                # a comment line at column 0 (or indented) INSIDE the block, before the n-th binding: Ninja drops
                # comment lines altogether, the block goes on
                s_["inner"] = [draw(st.integers(0, 3)), draw(st.sampled_from([b"# in the block", b"   # in the block"])).hex()]
            if s_["k"] in ("include", "subninja"):
                decorate(s_["file"])
    decorate(f)
    return {"kind": "manifest", "file": f, "crlf": draw(st.integers(0, 7)) == 0}


@st.composite
def quoting_case(draw):
    n = draw(st.integers(1, 40))
    strs = [draw(st.binary(min_size=1, max_size=12).map(lambda b: b.replace(b"\x00", b"\x01")) |
                 st.sampled_from([b"#foo", b"a b", b"it's", b"$HOME", b"`x`", b"a\nb", b"-n", b"~", b"*", b"a\\b", b"'", b"''", b"#"]))
            for _ in range(n)]
    return {"kind": "quoting", "strs": [s.hex() for s in strs]}


def strategy(tier):
    return st.one_of(manifest_case(), manifest_case(), manifest_case(), quoting_case())


# ------------------------------------------------------------------ rendering + reference evaluation


def render_file(f, files):
    L = []
    for s in f["stmts"]:
        k = s["k"]
        if k == "var":
            L.append(s["name"].encode() + b" = " + render(s["value"], False))
        elif k == "pool":
            L.append(b"pool " + s["name"].encode())
            L.append(b"  depth = %d" % s["depth"])
        elif k == "rule":
            L.append(b"rule " + s["name"].encode())
            for pn, tpl in s["params"].items():
                L.append(b"  " + pn.encode() + b" = " + render(tpl, False))
        elif k == "build":
            line = b"build " + b" ".join(render(o, True) for o in s["outs"]) + b": " + s["rule"].encode()
            for i in s["ins"]:
                line += b" " + render(i, True)
            if s["implicit"]:
                line += b" | " + b" ".join(render(i, True) for i in s["implicit"])
            if s["orderonly"]:
                line += b" || " + b" ".join(render(i, True) for i in s["orderonly"])
            L.append(line)
            for bn, tpl in s["binds"]:
                L.append(b"  " + bn.encode() + b" = " + render(tpl, False))
        elif k in ("include", "subninja"):
            render_file(s["file"], files)
            L.append(k.encode() + b" " + s["file"]["name"].encode())
        inner = s.get("inner")
        if inner and k in ("rule", "build", "pool"):
            # the block's lines are the last ones appended: header + bindings
            nb = {"rule": len(s.get("params", {})), "build": len(s.get("binds", [])), "pool": 1}[k]
            pos = len(L) - nb + min(inner[0], nb)
            L.insert(pos, bytes.fromhex(inner[1]))
        tail = s.get("tail")
        if tail:
            L.append({"icomment": b"  # note", "iblank": b"   ", "comment": b"# note", "blank": b""}[tail])
    files[f["name"]] = b"\n".join(L) + b"\n"


class Scope:
    def __init__(self, parent=None):
        self.parent = parent
        self.vars = {}
        self.rules = {}

    def lookup(self, n):
        s = self
        while s:
            if n in s.vars:
                return s.vars[n]
            s = s.parent
        return b""

    def rule(self, n):
        s = self
        while s:
            if n in s.rules:
                return s.rules[n]
            s = s.parent
        return None


def strip_value(b):
    return b


def reference(f, scope, out, info):
    """Evaluates the model; appends one dict per build statement to out."""
    for s in f["stmts"]:
        k = s["k"]
        if k == "var":
            scope.vars[s["name"]] = evaluate(s["value"], scope.lookup)
        elif k == "rule":
            scope.rules[s["name"]] = s
        elif k == "include":
            info["nested"] = True
            reference(s["file"], scope, out, info)
        elif k == "subninja":
            info["nested"] = True
            reference(s["file"], Scope(scope), out, info)
        elif k == "build":
            binds = {bn: evaluate(tpl, scope.lookup) for bn, tpl in s["binds"]}
            rule = scope.rule(s["rule"]) if s["rule"] != "phony" else {"params": {}}
            outs = [evaluate(o, scope.lookup, value=False) for o in s["outs"]]
            ins = [evaluate(i, scope.lookup, value=False) for i in s["ins"]]
            imp = [evaluate(i, scope.lookup, value=False) for i in s["implicit"]]
            oo = [evaluate(i, scope.lookup, value=False) for i in s["orderonly"]]

            def expand(name, safe, escape, depth=[0]):
                def lk(n):
                    if n == "in":
                        return b" ".join(shell_quote(p, safe) if escape else p for p in ins)
                    if n == "out":
                        return b" ".join(shell_quote(p, safe) if escape else p for p in outs)
                    if n == "in_newline":
                        return b"\n".join(shell_quote(p, safe) if escape else p for p in ins)
                    if n in binds:
                        return binds[n]
                    if n in rule["params"]:
                        info["levels"] = max(info.get("levels", 0), depth[0] + 1)
                        depth[0] += 1
                        r = evaluate(rule["params"][n], lk)
                        depth[0] -= 1
                        return r
                    v = scope.lookup(n)
                    return v
                return lk(name)

            rec = {"outs": outs, "ins": ins, "implicit": imp, "orderonly": oo, "rule": s["rule"]}
            for safe_name, safe in (("ll", LL_SAFE), ("nj", NJ_SAFE)):
                rec["command_" + safe_name] = expand("command", safe, True)
            for prm in ("description", "depfile", "rspfile", "rspfile_content", "pool", "generator", "restat", "deps"):
                # Ninja (Edge::GetBinding) shell-quotes $in / $out in every binding it expands; only the depfile
                # and the rspfile NAME are read unescaped (observed with ninja 1.11: `ninja -n` prints the quoted
                # description, `-d keeprsp` keeps a response file with quoted content)
                rec[prm] = expand(prm, LL_SAFE, prm not in ("depfile", "rspfile"))
            if any(any(c not in LL_SAFE for c in p) for p in ins + outs):
                info["quoted_path"] = True
            out.append(rec)


def run_ninja(wd):
    p = subprocess.run([NINJA, "-C", wd, "-t", "compdb"], stdout=subprocess.PIPE, stderr=subprocess.PIPE, timeout=60)
    if p.returncode != 0:
        return None, (p.stdout + p.stderr).decode("latin-1")
    try:
        data = json.loads(p.stdout.decode("utf-8", "surrogateescape"))
    except ValueError as e:
        return None, "json: %s" % e
    return data, ""


def parse_dump(text):
    cmds, errors = [], []
    for line in text.splitlines():
        t = line.split(" ")
        if t[0] == "cmd":
            d = {}
            for f in t[1:]:
                k, _, v = f.partition("=")
                d[k] = v
            cmds.append(d)
        elif t[0] == "error":
            errors.append(bytes.fromhex(t[2]).decode("latin-1") if t[2] != "-" else "")
    return cmds, errors


def hexlist(s):
    if s == "~":
        return []
    return [b"" if x == "-" else bytes.fromhex(x) for x in s.split(",")]


def unh(s):
    return b"" if s == "-" else bytes.fromhex(s)


def normalize_ll_path(p):
    return p


def run_case(case, ctx, verbose=False):
    if case["kind"] == "quoting":
        strs = [bytes.fromhex(s) for s in case["strs"]]
        try:
            quoted = [val.unhx(val.ask("shesc " + val.hx(s))) for s in strs]
        except val.Died as e:
            return Outcome(e.msg)
        script = b"".join(b"printf '%s\\0' " + q + b"\n" for q in quoted)
        p = subprocess.run(["/bin/sh"], input=script, stdout=subprocess.PIPE, stderr=subprocess.PIPE, timeout=60,
                           env={"PATH": "/usr/bin:/bin", "HOME": "/nonexistent"}, cwd="/")
        got = p.stdout.split(b"\0")[:-1]
        nt = any(any(c not in LL_SAFE for c in s) for s in strs)
        if got != strs:
            for s, q, g in zip(strs, quoted, got + [None] * len(strs)):
                if s != g:
                    return Outcome("shellEscaped(%r) = %r, which /bin/sh reads back as %r" % (s, q, g), nontrivial=nt,
                                   classes=["quoting"])
            return Outcome("shell printed %d strings for %d arguments (stderr %r)" % (len(got), len(strs), p.stderr[:200]),
                           nontrivial=nt, classes=["quoting"])
        return Outcome(None, nontrivial=nt, classes=["quoting"], detail={"quoted_strings": len(strs)})

    wd = ctx.fresh("nj")
    os.makedirs(wd)
    try:
        files = {}
        render_file(case["file"], files)
        if case.get("crlf"):
            # the same manifest with CRLF line endings (also inside '$'-newline continuations)
            files = {n: d.replace(b"\n", b"\r\n") for n, d in files.items()}
        for name, data in files.items():
            with open(os.path.join(wd, name), "wb") as f:
                f.write(data)
        info = {}
        ref = []
        reference(case["file"], Scope(), ref, info)
        cls = ["manifest"] + (["crlf"] if case.get("crlf") else [])
        # duplicate outputs / phony cycles etc. are rejected by ninja: only accepted manifests are judged
        compdb, err = run_ninja(wd)
        if compdb is None:
            return Outcome(None, classes=cls + ["rejected-by-ninja"], detail={"rejected": 1})
        # (1) cross-validate the evaluator against ninja (command of every non-phony edge, in order)
        nj_cmds = [e["command"].encode("utf-8", "surrogateescape") for e in compdb]
        # (`ninja -t compdb` lists the edges that have at least one input)
        ref_cmds = [r["command_nj"] for r in ref if r["ins"] or r["implicit"] or r["orderonly"]]
        # compdb lists one entry per edge with >= 1 explicit input only in old versions; 1.11 lists all
        if len(nj_cmds) == len(ref_cmds):
            for a, b in zip(nj_cmds, ref_cmds):
                if a != b:
                    return Outcome(None, classes=cls + ["evaluator-disagrees-with-ninja"],
                                   detail={"evaluator_disagreements": 1})
        else:
            return Outcome(None, classes=cls + ["evaluator-disagrees-with-ninja"], detail={"evaluator_disagreements": 1})
        # (2) llbuild
        p = subprocess.run([NINJADUMP, "build.ninja"], stdout=subprocess.PIPE, stderr=subprocess.PIPE, cwd=wd, timeout=60)
        if p.returncode != 0:
            return Outcome("llbuild's manifest loader crashed (rc=%s): %s" % (p.returncode, p.stderr.decode("latin-1")[-600:]),
                           classes=cls)
        cmds, errors = parse_dump(p.stdout.decode("latin-1"))
        main = files["build.ninja"]
        if errors:
            return Outcome("ninja accepts this manifest but llbuild reports: %s\n--- build.ninja\n%s" % (
                errors[:3], main.decode("latin-1")), classes=cls)
        if len(cmds) != len(ref):
            return Outcome("llbuild loaded %d build statements, the manifest has %d" % (len(cmds), len(ref)), classes=cls)
        for i, (c, r) in enumerate(zip(cmds, ref)):
            checks = [
                ("outputs", hexlist(c["out"]), r["outs"]),
                ("explicit inputs", hexlist(c["in"]), r["ins"]),
                ("implicit inputs", hexlist(c["implicit"]), r["implicit"]),
                ("order-only inputs", hexlist(c["orderonly"]), r["orderonly"]),
                ("command", unh(c["command"]), r["command_ll"]),
                ("description", unh(c["description"]), r["description"]),
                ("depfile", unh(c["depfile"]), r["depfile"]),
                ("pool", unh(c["pool"]), r["pool"]),
                ("generator", c["generator"] == "1", bool(r["generator"])),
                ("restat", c["restat"] == "1", bool(r["restat"])),
            ]
            if r["rspfile"]:
                checks.append(("rspfile_content", unh(c["rspcontent"]), r["rspfile_content"]))
                got_rsp = unh(c["rspfile"])
                if not (got_rsp == r["rspfile"] or got_rsp.endswith(b"/" + r["rspfile"])):
                    checks.append(("rspfile", got_rsp, r["rspfile"]))
            for what, got, want in checks:
                if got != want:
                    return Outcome("build statement %d (%s): %s differ\n  llbuild: %r\n  ninja rules: %r\n--- files\n%s" % (
                        i + 1, [o.decode("latin-1") for o in r["outs"]], what, got, want,
                        "\n".join("## %s\n%s" % (n, d.decode("latin-1")) for n, d in files.items())), classes=cls)
        nt = info.get("levels", 0) >= 2 or info.get("nested") or info.get("quoted_path")
        if info.get("nested"):
            cls.append("include/subninja")
        if info.get("levels", 0) >= 2:
            cls.append("nested-rule-variables")
        if info.get("quoted_path"):
            cls.append("quoted-path")
        return Outcome(None, nontrivial=bool(nt), classes=cls, detail={"build_statements": len(ref)})
    finally:
        shutil.rmtree(wd, ignore_errors=True)
