"""C12 -- directory-tree signatures change exactly when the tree changes."""
import ctypes
import ctypes.util
import os
import shutil
import stat

from hypothesis import strategies as st

import common
from common import Outcome
import bs_model as bm

ID = "C12"
LEVEL = "exploration"
FLAVOURS = ["rel"]
TARGETS = ["bsx", "vtool"]
RULE = ("Hypothesis generates a directory tree (depth <= 4, fan-out <= 4; files, directories, symlinks), a command "
        "whose input is that directory as a tree node ('tree/') or a node marked is-directory-structure, with or "
        "without content-exclusion-patterns (literal names, '*.ext', 'pre*', '?x', bracket expressions '[ab]x' 'pre[0-9]' '[!a]x' 'c.[oa]', an escape '\\.x'), and a history of 1-4 single or "
        "compound edits -- add / remove / rename / retype at any depth, content edit in place, mtime-only touch, "
        "chmod, and (a quarter of the histories) one edit of the node's DECLARATION between builds: tree <-> structure "
        "or another pattern list, after which the new declaration's semantics are demanded -- each followed by a build in a NEW process; every edit (and the parent directory when an entry is "
        "added or removed) is stamped from the logical clock, so it is observable by construction. Reference: a "
        "Python walk of the tree hiding names that libc fnmatch(pattern, name, 0) matches at every level. "
        "Three-valued oracle. Tree node: MUST re-run if the visible set of (path, type) changed or a visible file's "
        "size, mtime, mode or content changed; MUST NOT re-run if nothing at all changed; don't-care if only hidden "
        "entries (and the mtimes of directories containing them) or a directory's own metadata changed. Structure "
        "node: MUST re-run iff the visible (path, type) set changed; MUST NOT for content-, mtime- or hidden-only "
        "edits; chmod is don't-care. Non-trivial = an edit at depth >= 2, or hidden by a pattern, or content-only "
        "under a structure node; distinct = sha1 of the case.")
ASSUMPTIONS = ["fnmatch(3) with flags 0 is the matching semantics (PlatformUtility.cpp: filenameMatch)"]

_libc = ctypes.CDLL(ctypes.util.find_library("c"))
_libc.fnmatch.argtypes = [ctypes.c_char_p, ctypes.c_char_p, ctypes.c_int]


def fnmatch(pat, name):
    return _libc.fnmatch(pat.encode(), name.encode(), 0) == 0


NAMES = ["a", "b", "ax", "bx", "c.o", "d.o", "pre1", "pre2", "tmp", "x", ".e.o", ".x"]   # (dot files match wildcards too: flags 0)
# (bracket expressions and backslash escapes: several pattern characters match ONE name character, so such a
# pattern is longer than the names it hides)
PATTERNS = ["*.o", "pre*", "?x", "tmp", "a", "*", "[ab]x", "pre[0-9]", "\\.x", "[!a]x", "c.[oa]"]


def budget(tier):
    return 12000 if tier == "quick" else 300000


@st.composite
def tree(draw, depth=0):
    n = draw(st.integers(0 if depth else 1, 4 if depth < 2 else 2))
    names = draw(st.permutations(NAMES))[:n]
    out = {}
    for nm in names:
        k = draw(st.sampled_from(["f", "f", "f", "d", "l"] if depth < 3 else ["f", "f", "l"]))
        if k == "f":
            out[nm] = {"t": "f", "c": draw(st.sampled_from(["", "1", "22", "abc"]))}
        elif k == "l":
            # symlinks are dangling: llbuild stats through links, so a link to a directory is walked as that
            # directory (the reference walk would have to model link resolution), and a link to an ancestor: with relative node names llbuild's
            # "symlink to a parent directory" guard does not fire and the walk does not terminate
            # (observation recorded in DESIGN.md; outside this property)
            out[nm] = {"t": "l", "to": draw(st.sampled_from(["nowhere", "../zz", "nowhere2"]))}
        else:
            out[nm] = {"t": "d", "e": draw(tree(depth + 1))}
    return out


def all_paths(tr, prefix=""):
    out = []
    for nm, e in sorted(tr.items()):
        p = prefix + nm
        out.append((p, e))
        if e["t"] == "d":
            out += all_paths(e["e"], p + "/")
    return out


@st.composite
def edit(draw, tr):
    """One edit, described by path; applied to a copy of the model tree by apply_model()."""
    paths = all_paths(tr)
    dirs = [""] + [p + "/" for p, e in paths if e["t"] == "d"]
    files = [p for p, e in paths if e["t"] == "f"]
    kinds = ["add", "add"]
    if paths:
        kinds += ["remove", "rename", "retype"]
    if files:
        kinds += ["content", "content", "touch", "chmod"]
    k = draw(st.sampled_from(kinds))
    if k == "add":
        d = draw(st.sampled_from(dirs))
        return {"k": "add", "dir": d, "name": draw(st.sampled_from(NAMES + ["zz1", "zz2"])),
                "what": draw(st.sampled_from(["f", "f", "d", "l"])), "c": draw(st.sampled_from(["", "z"])),
                "keep_dir_mtime": draw(st.integers(0, 3)) == 0}
    if k == "remove":
        return {"k": "remove", "path": draw(st.sampled_from([p for p, _ in paths]))}
    if k == "rename":
        return {"k": "rename", "path": draw(st.sampled_from([p for p, _ in paths])), "name": draw(st.sampled_from(NAMES))}
    if k == "retype":
        return {"k": "retype", "path": draw(st.sampled_from([p for p, _ in paths]))}
    if k == "content":
        return {"k": "content", "path": draw(st.sampled_from(files)), "c": draw(st.sampled_from(["", "1", "22", "new", "abc"])),
                "same_mtime": draw(st.integers(0, 4)) == 0}
    if k == "touch":
        return {"k": "touch", "path": draw(st.sampled_from(files))}
    return {"k": "chmod", "path": draw(st.sampled_from(files)), "mode": draw(st.sampled_from([0o600, 0o644, 0o755]))}


@st.composite
def case(draw):
    tr = draw(tree())
    steps = []
    cur = tr
    import copy
    for _ in range(draw(st.integers(1, 4))):
        n = draw(st.sampled_from([0, 1, 1, 1, 2]))
        edits = []
        for _ in range(n):
            e = draw(edit(cur))
            cur = apply_model(copy.deepcopy(cur), e)
            edits.append(e)
        steps.append(edits)
    # the node's declaration may be edited between builds: tree <-> structure, or another pattern list
    # (one switch per history at most, at a generated step)
    switch = None
    if draw(st.integers(0, 3)) == 0:
        at = draw(st.integers(0, len(steps) - 1))
        if draw(st.booleans()):
            switch = {"at": at, "kind": True}
        else:
            switch = {"at": at, "patterns": draw(st.lists(st.sampled_from(PATTERNS), min_size=0, max_size=2, unique=True))}
    return {"tree": tr, "steps": steps, "structure": draw(st.booleans()), "switch": switch,
            "patterns": draw(st.lists(st.sampled_from(PATTERNS), min_size=0, max_size=2, unique=True)) if draw(st.booleans()) else [],
            "jobs": draw(st.sampled_from([None, 4])),
            "fs": draw(st.sampled_from(["default", "default", "device-agnostic", "checksum-only"])),
            "on_disk": draw(st.integers(0, 2)) == 0}


def strategy(tier):
    return case()


def lookup(tr, path):
    parts = path.split("/")
    cur = tr
    for p in parts[:-1]:
        cur = cur[p]["e"]
    return cur, parts[-1]


def apply_model(tr, e):
    k = e["k"]
    if k == "add":
        d = tr
        if e["dir"]:
            d, nm = lookup(tr, e["dir"].rstrip("/"))
            d = d[nm]["e"]
        if e["name"] in d:
            return tr
        d[e["name"]] = {"t": "f", "c": e["c"]} if e["what"] == "f" else {"t": "d", "e": {}} if e["what"] == "d" else {"t": "l", "to": "nowhere"}
        return tr
    try:
        d, nm = lookup(tr, e["path"])
    except KeyError:
        return tr
    if nm not in d:
        return tr
    if k == "remove":
        del d[nm]
    elif k == "rename":
        if e["name"] not in d:
            d[e["name"]] = d.pop(nm)
    elif k == "retype":
        d[nm] = {"t": "d", "e": {}} if d[nm]["t"] != "d" else {"t": "f", "c": "r"}
    elif k == "content":
        if d[nm]["t"] == "f":
            d[nm]["c"] = e["c"]
    return tr


class Disk:
    def __init__(self, ws, root):
        self.ws = ws
        self.root = root

    def p(self, rel):
        return os.path.join(self.ws.path(self.root), rel) if rel else self.ws.path(self.root)

    def stamp(self, rel):
        t = self.ws.tick()
        os.utime(self.p(rel), ns=(t * 10**9, t * 10**9), follow_symlinks=False)

    def create(self, tr, prefix=""):
        os.makedirs(self.p(prefix.rstrip("/")), exist_ok=True)
        for nm, e in sorted(tr.items()):
            rel = prefix + nm
            if e["t"] == "f":
                with open(self.p(rel), "w") as f:
                    f.write(e["c"])
                self.stamp(rel)
            elif e["t"] == "l":
                os.symlink(e["to"], self.p(rel))
                self.stamp(rel)
            else:
                self.create(e["e"], rel + "/")
        self.stamp(prefix.rstrip("/"))

    def apply(self, e):
        k = e["k"]
        if k == "add":
            rel = e["dir"] + e["name"]
            if os.path.lexists(self.p(rel)) or not os.path.isdir(self.p(e["dir"].rstrip("/"))):
                return
            dst = os.lstat(self.p(e["dir"].rstrip("/")))
            if e["what"] == "f":
                with open(self.p(rel), "w") as f:
                    f.write(e["c"])
            elif e["what"] == "d":
                os.mkdir(self.p(rel))
            else:
                os.symlink("nowhere", self.p(rel))
            self.stamp(rel)
            if e.get("keep_dir_mtime"):
                # e.g. `cp -p` / `rsync -t` / `tar x`: the entry appears but the directory's mtime is put back
                os.utime(self.p(e["dir"].rstrip("/")), ns=(dst.st_mtime_ns, dst.st_mtime_ns))
            else:
                self.stamp(e["dir"].rstrip("/"))
            return
        rel = e["path"]
        if not os.path.lexists(self.p(rel)):
            return
        parent = os.path.dirname(rel)
        if k == "remove":
            if os.path.isdir(self.p(rel)) and not os.path.islink(self.p(rel)):
                shutil.rmtree(self.p(rel))
            else:
                os.unlink(self.p(rel))
            self.stamp(parent)
        elif k == "rename":
            new = (parent + "/" if parent else "") + e["name"]
            if os.path.lexists(self.p(new)):
                return
            os.rename(self.p(rel), self.p(new))
            self.stamp(parent)
        elif k == "retype":
            isdir = os.path.isdir(self.p(rel)) and not os.path.islink(self.p(rel))
            if isdir:
                shutil.rmtree(self.p(rel))
                with open(self.p(rel), "w") as f:
                    f.write("r")
            else:
                os.unlink(self.p(rel))
                os.mkdir(self.p(rel))
            self.stamp(rel)
            self.stamp(parent)
        elif k == "content":
            if os.path.isfile(self.p(rel)) and not os.path.islink(self.p(rel)):
                st_ = os.stat(self.p(rel))
                with open(self.p(rel), "r+") as f:
                    f.write(e["c"])
                    f.truncate()
                if e.get("same_mtime"):
                    os.utime(self.p(rel), ns=(st_.st_mtime_ns, st_.st_mtime_ns))
                else:
                    self.stamp(rel)
        elif k == "touch":
            self.stamp(rel)
        elif k == "chmod":
            if not os.path.islink(self.p(rel)):
                os.chmod(self.p(rel), e["mode"])

    def snapshot(self, patterns):
        """-> (visible {path: (type, size, mtime, mode, content)}, everything {path: ...} incl. dirs' own stat)"""
        vis, full = {}, {}

        def walk(rel, hidden):
            try:
                names = sorted(os.listdir(self.p(rel)))
            except OSError:
                return
            for nm in names:
                r = (rel + "/" if rel else "") + nm
                st_ = os.lstat(self.p(r))
                h = hidden or any(fnmatch(pt, nm) for pt in patterns)
                if stat.S_ISLNK(st_.st_mode):
                    # llbuild observes entries with stat(), which follows links: a dangling link (the only
                    # kind generated) is a *missing* file whatever its own mtime or target string
                    rec = ("l", 0, 0, 0, "")
                elif stat.S_ISDIR(st_.st_mode):
                    rec = ("d", 0, 0, 0, "")
                else:
                    with open(self.p(r), "rb") as f:
                        rec = ("f", st_.st_size, st_.st_mtime_ns, st_.st_mode, f.read())
                full[r] = rec + (st_.st_mtime_ns, st_.st_mode)
                if not h:
                    vis[r] = rec
                    if rec[0] == "d":
                        vis["//dirstat/" + r] = ("D", st_.st_mtime_ns, st_.st_mode, st_.st_size, st_.st_nlink)
                if stat.S_ISDIR(st_.st_mode):
                    walk(r, h)
        walk("", False)
        st_ = os.lstat(self.p(""))
        full[""] = ("d", 0, 0, 0, "", st_.st_mtime_ns, st_.st_mode)
        vis["//dirstat/"] = ("D", st_.st_mtime_ns, st_.st_mode, st_.st_size, st_.st_nlink)
        return vis, full


def run_case(case, ctx, verbose=False):
    ws = bm.Workspace(ctx, on_disk=bool(case.get("on_disk")))
    try:
        disk = Disk(ws, "tree")
        disk.create(case["tree"])
        fs = case.get("fs", "default")
        case = dict(case)          # 'structure' and 'patterns' follow the declaration as it is edited

        def declare():
            node_attrs = {}
            if case["structure"]:
                node_attrs["is-directory-structure"] = True
            if case["patterns"]:
                node_attrs["content-exclusion-patterns"] = case["patterns"]
            desc = {"commands": [{"name": "CC", "tool": "shell", "inputs": ["tree/"], "outputs": ["out"],
                                  "args": [bm.VTOOL, "CC", "--out", "out"]}],
                    "targets": {"t": ["out"]}, "default": "t"}
            if node_attrs:
                desc["nodes"] = {"tree/": node_attrs}
            if fs != "default":
                desc["file_system"] = fs
            bm.write_description(ws, desc)
        declare()
        r = ws.build(target="t", jobs=case["jobs"])
        if not r.ok:
            return Outcome("first build failed: %s %s" % (r.errors(), r.stderr[-300:]))
        r = ws.build(target="t", jobs=case["jobs"])
        if r.ran():
            return Outcome("null build re-ran the command")
        cls = ["structure" if case["structure"] else "tree"] + (["patterns"] if case["patterns"] else []) + ["fs:" + fs]
        nt = False
        pending_mode = False
        switch = case.get("switch")
        for stepno, edits in enumerate(case["steps"]):
            vis0, full0 = disk.snapshot(case["patterns"])
            for e in edits:
                disk.apply(e)
            switched = None
            if switch and switch["at"] == stepno:
                if switch.get("kind"):
                    case["structure"] = not case["structure"]
                    switched = "kind"
                elif switch["patterns"] != case["patterns"]:
                    case["patterns"] = switch["patterns"]
                    switched = "patterns"
                if switched:
                    declare()
                    cls.append("declaration-edited:" + switched)
                    cls[0] = "structure" if case["structure"] else "tree"
            vis1, full1 = disk.snapshot(case["patterns"])
            r = ws.build(target="t", jobs=case["jobs"])
            if r.timed_out or r.crashed():
                return Outcome("build crashed/hung rc=%s %s" % (r.rc, r.stderr[-300:]), classes=cls)
            if not r.ok:
                return Outcome("build failed after edits %s: %s" % (edits, r.stderr[-300:]), classes=cls)
            ran = "CC" in r.ran()
            dirstat0 = {p: v for p, v in vis0.items() if p.startswith("//dirstat/")}
            dirstat1 = {p: v for p, v in vis1.items() if p.startswith("//dirstat/")}
            vis0 = {p: v for p, v in vis0.items() if not p.startswith("//dirstat/")}
            vis1 = {p: v for p, v in vis1.items() if not p.startswith("//dirstat/")}
            shape0 = {p: v[0] for p, v in vis0.items()}
            shape1 = {p: v[0] for p, v in vis1.items()}
            # a chmod is remembered whatever the node's kind is at that moment: if the declaration later becomes a
            # structure node, the delayed mode still surfaces at the entry's next observable change
            if any(e.get("k") == "chmod" for e in edits):
                pending_mode = True
            if case["structure"]:
                must = shape0 != shape1
                # (also a chmod of an entry that was renamed or created in the same step: its path is not in vis0)
                mode_changed = any(p in vis1 and vis0[p][3] != vis1[p][3] for p in vis0) or \
                    any(e.get("k") == "chmod" for e in edits)
                # a chmod is invisible to llbuild's stat comparison but is part of the structure
                # signature: it surfaces at the next observable change of that entry, whenever that
                # is. After a chmod the rest of the history is don't-care for 'must not re-run'.
                pending_mode = pending_mode or mode_changed
                must_not = shape0 == shape1 and not pending_mode
            else:
                # permission bits are not part of what llbuild can observe (FileInfo::operator== and C13
                # speak of existence, size, mtime, device, inode): a chmod-only change is don't-care
                # observable = (type, size, mtime) [+ link target]; a same-size in-place rewrite with the
                # old mtime restored is not observable by stat (C13) and therefore don't-care
                if fs == "checksum-only":
                    # only type, size and content are observable; timestamps are not
                    nomode = lambda d: {p: (v[0], v[1], v[4]) for p, v in d.items()}
                else:
                    nomode = lambda d: {p: (v[0], v[1], v[2], v[4] if v[0] == "l" else "") for p, v in d.items()}
                must = nomode(vis0) != nomode(vis1)
                # nothing visible changed -- neither a visible entry nor the own stat record of a
                # visible directory: exclusion patterns hide exactly the matching names, so an edit
                # confined to hidden entries that leaves the visible directories' stat alone must not
                # re-run the command
                must_not = vis0 == vis1 and dirstat0 == dirstat1
                if fs == "checksum-only" and not must:
                    must_not = nomode(vis0) == nomode(vis1) and {p: v[0] for p, v in full0.items()} == {p: v[0] for p, v in full1.items()}
            if switched == "kind":
                # what a tree node and a structure node observe is not comparable: this one build is don't-care
                must = must_not = False
            elif switched == "patterns":
                # (vis0 was taken under the old patterns, vis1 under the new ones: `must` already compares what
                # the command could see before with what it can see now); not re-running is never demanded
                must_not = False
            verdict = "must" if must else "must-not" if must_not else "dont-care"
            cls.append(verdict)
            deep = any((e.get("path") or e.get("dir", "")).count("/") >= 1 for e in edits)
            hidden_only = vis0 == vis1 and full0 != full1
            content_only_structure = case["structure"] and shape0 == shape1 and vis0 != vis1
            if edits and (deep or hidden_only or content_only_structure):
                nt = True
            if must and not ran:
                diff = sorted(set(vis0.items()) ^ set(vis1.items()), key=lambda x: x[0])[:3]
                return Outcome("%s node: the tree changed observably (%s; edits %s) but the command did not re-run" % (
                    cls[0], [d[0] for d in diff], edits), nontrivial=nt, classes=cls)
            if must_not and ran:
                return Outcome("%s node: only %s changed (edits %s) but the command re-ran" % (
                    cls[0], "nothing" if full0 == full1 else "contents/timestamps/hidden entries", edits),
                    nontrivial=nt, classes=cls)
        return Outcome(None, nontrivial=nt, classes=sorted(set(cls)))
    finally:
        ws.cleanup()
