"""C05 -- cancellation never hangs, leaks work, or poisons later builds."""
import os

from hypothesis import strategies as st

import common
from common import Outcome
import engine_model as em
import c01

ID = "C05"
LEVEL = "fault_enumeration"
FLAVOURS = ["rel"]
TARGETS = ["enginesim"]
RULE = ("Hypothesis generates a DAG program and a history (set/tamper/redefine/restart/build under generated "
        "schedules) and picks a victim build. The victim is first run un-cancelled to learn its number of "
        "engine loop iterations K, task callbacks C and idle waits W; the check then ENUMERATES cancelBuild() "
        "at every loop top 1..K, before and after the body of every callback 1..C, and from a foreign thread "
        "at every idle wait 1..W (stride-sampled above the per-history cap, cap hits counted), each followed "
        "by the rest of the history on (i) the same engine after resetForBuild() and (ii) a new engine on the "
        "same database; pending tasks are completed inside the cancellation drain in a generated order. "
        "Oracles: the cancelled build returns, with the empty value, without the structural-deadlock marker; "
        "no task callback after build() returned and every created task destroyed; after every build the "
        "database holds only rows equal to processed completions with the dependency list of that execution; "
        "every later successful build returns the reference evaluator's clean value and hands tasks only "
        "fresh values. Non-trivial = cancel landed while >= 1 task was in progress and a later build succeeded "
        "after a further mutation; distinct = sha1 of (case, cancel point, continuation).")
ASSUMPTIONS = ["cancellation points are engine steps (loop tops, callback boundaries, idle waits), which are the only "
               "instants at which the single-threaded engine can observe the flag"]

_TIER = {"v": "quick"}


def budget(tier):
    return 1000 if tier == "quick" else 20000


def point_cap(tier):
    return 60 if tier == "quick" else 100000


@st.composite
def cancel_case(draw):
    c = draw(em.history_case(max_ops=9, program_kw={"max_leaves": 3, "max_derived": 7}))
    builds = [i for i, op in enumerate(c["ops"]) if op["op"] == "build"]
    # make sure something follows the victim: mutation(s) + build
    leaves = [r["key"] for r in c["rules"] if r["leaf"]]
    derived = [r["key"] for r in c["rules"] if not r["leaf"]]
    vi = draw(st.sampled_from(builds))
    tail_builds = [i for i in builds if i > vi]
    if not tail_builds:
        nset = draw(st.integers(0, 2))
        for _ in range(nset):
            c["ops"].append({"op": "set", "key": draw(st.sampled_from(leaves)), "v": draw(st.integers(0, 5))})
        c["ops"].append(draw(em.build_op(derived[-2:] + [c["ops"][vi]["key"]] * 2)))
    c["victim"] = vi
    c["offset"] = draw(st.integers(0, 1000))
    return c


@st.composite
def staged_case(draw):
    """Motif: a task that asks for two computed inputs from the provideValue of a first one, in an incremental
    build in which one of them has to re-run and the other has not; every engine step of that build is a cancel
    point, and the OTHER one's leaf changes before the next build."""
    keys = draw(em.key_pool(7))
    x, la, lb, A, B, T, U = keys
    mk = lambda k, ins: {"key": k, "leaf": False, "prefix": draw(em._PREFIX), "ver": 0, "mod": draw(em._MODS),
                        "salt": draw(st.integers(0, 7)), "force": False, "art": draw(st.booleans()), "ins": ins, "discs": []}
    one = lambda k, src=-1: {"key": k, "mode": "r", "w": draw(st.integers(1, 5)), "src": src, "mod": 1, "rem": 0}
    staged = [one(B, 0), one(A, 0)]
    if draw(st.booleans()):
        staged.reverse()
    rules = [em.leaf_rule(x, draw(em._PREFIX)), em.leaf_rule(la, draw(em._PREFIX)), em.leaf_rule(lb, draw(em._PREFIX)),
             mk(A, [one(la)]), mk(B, [one(lb)]), mk(T, [one(x)] + staged)]
    root = T
    # U asks for A and B directly: building U first leaves A and B with recorded dependencies while T has never
    # been built, so that in the victim build T is RUNNING while A and B are still being scanned
    rules.append(mk(U, [one(A), one(B)]))
    first = draw(st.sampled_from([U, U, T]))
    mode = lambda: draw(st.sampled_from(["sync", "sync", "idle"]))
    ops = [{"op": "build", "key": first, "mode": mode(), "choices": []},
           {"op": "set", "key": draw(st.sampled_from([la, lb])), "v": draw(st.integers(2, 5))},
           {"op": "build", "key": root, "mode": mode(), "choices": []},
           {"op": "set", "key": draw(st.sampled_from([la, lb, x])), "v": draw(st.integers(6, 9))},
           {"op": "build", "key": root, "mode": mode(), "choices": []},
           {"op": "build", "key": root, "mode": mode(), "choices": []}]
    return {"db": draw(st.booleans()), "front": "cxx", "rules": rules, "init": {x: 1, la: 1, lb: 1}, "ops": ops,
            "victim": 2, "offset": draw(st.integers(0, 1000)), "motif": "staged-requests"}


def strategy(tier):
    _TIER["v"] = tier
    return st.integers(0, 3).flatmap(lambda n: staged_case() if n == 2 else cancel_case())


def run(case, ctx):
    db = ctx.fresh("db")
    res = em.run_enginesim(em.script_for(case, db, dump=bool(case.get("db"))), timeout=120)
    if case.get("db"):
        for suf in ("", "-journal"):
            try:
                os.unlink(db + suf)
            except OSError:
                pass
    return res


def variant(case, point, cont):
    c = dict(case)
    ops = []
    for i, op in enumerate(case["ops"]):
        if i == case["victim"]:
            op = dict(op)
            op["cancel"] = point
            ops.append(op)
            ops.append({"op": cont})
        else:
            ops.append(op)
    c["ops"] = ops
    return c


TASK_EVENTS = ("start", "prior", "provide", "avail", "request")


def check_variant(case, res, point, cont):
    what = "cancel=%s then %s" % (point, cont)
    if res.timed_out:
        return what + ": hang (watchdog)", {}
    if res.rc == 3:
        return what + ": engine waits with nothing running (structural deadlock)", {}
    if res.rc != 0:
        return what + ": enginesim exited %d: %s" % (res.rc, (res.stderr or res.raw)[-500:]), {}
    trace = res.events
    builds = trace["builds"]
    info = {"in_progress": False, "later_success": False, "reached": False}
    # no task callbacks outside builds
    for b in builds:
        for ev in b["pre"]:
            if isinstance(ev, tuple) and ev[0] in TASK_EVENTS:
                return what + ": task callback %s delivered after build() returned" % (ev,), info
    for ev in trace["trailing"]:
        if isinstance(ev, tuple) and ev[0] in TASK_EVENTS:
            return what + ": task callback %s delivered after build() returned" % (ev,), info
    led = em.CompletionLedger()
    bi = 0
    victim_seen = False
    for i, op, w in em.replay_world(case):
        if op["op"] in ("restart", "redef", "undef") and not case.get("db"):
            led.clear()
        if op["op"] != "build":
            continue
        if bi >= len(builds):
            return what + ": trace has fewer builds than the script", info
        b = builds[bi]
        bi += 1
        s = em.summarize_build(b)
        if not s["ended"]:
            return what + ": build %d never returned" % b["n"], info
        if s["cancelled"]:
            info["reached"] = True
            victim_seen = True
            if s["result"] != "":
                return what + ": cancelled build %d returned a value %s" % (b["n"], s["result"]), info
            unfinished = [k for k, tid in s["created"].items() if k not in s["complete_status"]]
            if unfinished:
                info["in_progress"] = True
        leaked = [tid for tid in s["created"].values() if tid not in s["destroyed"]]
        if leaked:
            return what + ": build %d returned with tasks %s not destroyed" % (b["n"], leaked), info
        if case.get("db") and b["end"].get("noengine") != "1":
            epoch = int(b["end"].get("epoch", 0))
            led.update(s, w, epoch)
            v = em.check_db(b["db"], led, iteration=epoch, strict_computed=False)
            if v:
                return what + ": after build %d: %s" % (b["n"], v), info
        if victim_seen and not s["cancelled"] and s["result"]:
            info["later_success"] = True
    v, vinfo = c01.check_values(case, trace)
    if v:
        if "stale_build" in vinfo and discovered_dep_aba(case, trace, vinfo["stale_build"]):
            info["known"] = "C05-discovered-dep-aba"
        return what + ": " + v, info
    return None, info


def discovered_dep_aba(case, trace, fail_bi):
    """Known finding C05-discovered-dep-aba: in a cancelled build some rule K completed (and was
    recorded) having read discovered leaf L directly, the build was cancelled before the engine
    brought L itself up to date, L's recorded value was stale at that moment, and by the failing
    build L's external value has returned exactly to that recorded value (ABA), so nothing the
    engine recorded can tell that K consumed a different L."""
    stored = {}      # leaf -> value hex of its last processed completion
    suspects = []    # (leaf, stored value hex) established by a cancelled build
    bi = 0
    for i, op, w in em.replay_world(case):
        if op["op"] in ("restart", "redef", "undef") and not case.get("db"):
            stored = {}
        if op["op"] != "build":
            continue
        b = trace["builds"][bi]
        s = em.summarize_build(b)
        if bi == fail_bi:
            for leaf, val in suspects:
                if w.encode(w.spec(leaf), w.ext.get(leaf, 0)) == val:
                    return True
            return False
        if s["cancelled"]:
            validated = {k for k, st in s["status"] if st in (1, 2)}
            for k in s["complete_status"]:
                for leaf in s["discs"].get(k, []):
                    if leaf in validated:
                        continue
                    cur = w.encode(w.spec(leaf), w.ext.get(leaf, 0))
                    if leaf in stored and stored[leaf] != cur:
                        suspects.append((leaf, stored[leaf]))
        for k in s["complete_status"]:
            if k in s["completes"]:
                v = s["completes"][k][0]
                stored[k] = "" if v == "-" else v
        bi += 1
    return False


def run_case(case, ctx, verbose=False):
    base = run(case, ctx)
    if base.timed_out or base.rc != 0:
        return Outcome("baseline (no cancel): enginesim rc=%s %s" % (base.rc, (base.stderr or base.raw)[-300:]))
    v, _ = c01.check_values(case, base.events)
    if v:
        return Outcome("baseline (no cancel): " + v)
    nb = sum(1 for op in case["ops"][:case["victim"] + 1] if op["op"] == "build")
    vb = base.events["builds"][nb - 1]
    K = int(vb["end"].get("loops", 0))
    C = int(vb["end"].get("callbacks", 0))
    W = int(vb["end"].get("waits", 0))
    points = ["loop:%d" % k for k in range(1, K + 1)]
    for n in range(1, C + 1):
        points += ["cb:%d:0" % n, "cb:%d:1" % n]
    points += ["wait:%d" % k for k in range(1, W + 1)]
    cap = point_cap(_TIER["v"])
    capped = 0
    if len(points) > cap:
        stride = (len(points) + cap - 1) // cap
        off = case.get("offset", 0) % stride
        points = points[off::stride]
        capped = 1
    if case.get("only_point"):
        points = [case["only_point"]]
    nontrivial = 0
    classes = []
    total = 0
    known_hits = 0
    for p in points:
        for cont in ("reset", "restart"):
            c = variant(case, p, cont)
            r = run(c, ctx)
            total += 1
            v, info = check_variant(c, r, p, cont)
            if v and info.get("known"):
                known_hits += 1
                if case.get("only_point"):
                    return Outcome(v, classes=classes, known=info["known"])
                continue
            if v:
                return Outcome(v, classes=classes, detail={"cancel_points": total})
            if info.get("in_progress") and info.get("later_success"):
                nontrivial += 1
    if nontrivial:
        classes.append("cancel-with-task-in-progress+later-success")
    if case.get("db"):
        classes.append("db")
    if case.get("motif"):
        classes.append("motif:" + case["motif"])
    if capped:
        classes.append("cap-hit")
    if known_hits:
        classes.append("known:C05-discovered-dep-aba")
    return Outcome(None, nontrivial=nontrivial > 0, classes=classes,
                   detail={"cancel_points": total, "nontrivial_points": nontrivial, "cap_hits": capped,
                           "variants_matching_known_finding": known_hits})


def probes(ctx):
    import json
    out = []
    for e in common.load_known(ID):
        with open(os.path.join(common.VERIF, e["probe"])) as f:
            case = json.load(f)
        o = run_case(case, ctx)
        out.append((e["id"], bool(o.violation) and o.known == e["id"], e["description"]))
    return out

