"""C08 -- on-disk outputs after any incremental build equal a clean build's."""
import copy
import os

from hypothesis import strategies as st

import common
from common import Outcome
import bs_model as bm

ID = "C08"
LEVEL = "exploration"
FLAVOURS = ["rel"]
TARGETS = ["bsx", "vtool", "llbuild"]
RULE = ("Hypothesis generates a build description (1-7 commands over the shell tool running the deterministic "
        "`vtool`, phony, mkdir and symlink; file, virtual and sub-directory nodes; multi-output commands; Makefile / "
        "dependency-info discovered dependencies through '#include' lines in sources; 1-3 targets sharing "
        "sub-graphs; DAG and single-producer by construction) and a history of 3-10 ops from {edit / delete / "
        "create source, delete or overwrite an output, edit the description (change a command's arguments, add or "
        "remove an input, remove a command, add a command -- also one that now produces a former source), build a "
        "target or a single node, serial or -j4}, every build in a new `bsx` process (BuildSystemFrontend, as "
        "`llbuild buildsystem build`) on the same build.db -- or, for a third of the histories, consecutive builds "
        "on ONE reused BuildSystemFrontend until the description changes; every edit is stamped from the logical clock shared "
        "with vtool, so it is observable. Oracle: after each build that exits 0, every output reachable from what "
        "was built holds exactly the bytes the Python description evaluator computes from the current description "
        "and the current contents of files no command produces; a build may fail only when a needed command has a "
        "missing declared input. Non-trivial = >= 2 builds, a description edit and a file edit in the history, "
        "and a build in which some needed command did not re-run; distinct = sha1 of the case.")
ASSUMPTIONS = [
    "commands read only declared inputs and '#include'-discovered source files and write only declared outputs",
    "mtimes come from a logical clock (strictly increasing), never from the wall clock",
]


def budget(tier):
    return 12000 if tier == "quick" else 300000


@st.composite
def case(draw):
    desc = draw(bm.description(allow_dirs=True, allow_amo=True, allow_mutated=True))
    ops = []
    n = draw(st.integers(3, 10))
    cur = copy.deepcopy(desc)
    sources = list(desc["sources"])
    extra_id = [0, desc["includable"]]
    # the first build is of a target (so that there is something to reuse later), and every history
    # contains at least one file edit and one description edit at generated positions
    ops.append({"op": "build", "target": draw(st.sampled_from(sorted(cur["targets"]))), "jobs": draw(st.sampled_from([None, 4]))})
    forced = {draw(st.integers(0, n - 1)): "edit", draw(st.integers(0, n - 1)): "desc"}
    for step in range(n):
        k = forced.get(step) or draw(st.sampled_from(["edit", "edit", "delete-src", "create-src", "delete-out", "tamper-out",
                                  "desc", "desc", "build", "build", "build"]))
        outs = [o for c in cur["commands"] for o in c["outputs"] if not bm.is_virtual(o) and c["tool"] == "shell"]
        if k == "edit" and sources:
            s = draw(st.sampled_from(sources))
            body = "body-%d\n" % draw(st.integers(0, 5))
            others = [o for o in desc["includable"] if o != s]
            if others and draw(st.integers(0, 2)) == 0:
                body += "#include %s\n" % draw(st.sampled_from(others))
            ops.append({"op": "write", "path": s, "text": body, "inplace": draw(st.booleans())})
        elif k == "delete-src" and sources:
            ops.append({"op": "delete", "path": draw(st.sampled_from(sources))})
        elif k == "create-src" and sources:
            ops.append({"op": "write", "path": draw(st.sampled_from(sources)), "text": "new-%d\n" % draw(st.integers(0, 3)),
                        "inplace": False})
        elif k == "delete-out" and outs:
            ops.append({"op": "delete", "path": draw(st.sampled_from(outs))})
        elif k == "tamper-out" and [o for o in outs if o not in amo_outs(cur)]:
            ops.append({"op": "write", "path": draw(st.sampled_from([o for o in outs if o not in amo_outs(cur)])), "text": "junk-%d\n" % draw(st.integers(0, 2)),
                        "inplace": draw(st.booleans())})
        elif k == "desc":
            e = draw(desc_edit(cur, sources, extra_id))
            if e is not None:
                trial = copy.deepcopy(cur)
                apply_desc_edit(trial, e)
                if is_acyclic(trial):      # DAG by construction: an edit that would close a cycle is dropped
                    apply_desc_edit(cur, e)
                    ops.append({"op": "desc", "edit": e})
        elif k == "build":
            ops.append(draw(build_op(cur)))
    ops.append(draw(build_op(cur)))
    # a third of the histories keep ONE BuildSystemFrontend alive across consecutive builds (the system
    # and engine are reset and reused); a description edit ends the session, the next build starts a new one
    return {"desc": desc, "ops": ops, "session": draw(st.integers(0, 2)) == 0}


def amo_outs(cur):
    """outputs whose modification is, by declaration, not a reason to re-run their producer"""
    return {o for c in cur["commands"] if c.get("allow-modified-outputs") for o in c["outputs"]} | set(cur.get("nodes", {}))


@st.composite
def build_op(draw, cur):
    jobs = draw(st.sampled_from([None, None, 4]))
    if draw(st.integers(0, 4)) == 0:
        nodes = [o for c in cur["commands"] for o in c["outputs"] if not bm.is_virtual(o)]
        if nodes:
            return {"op": "build", "node": draw(st.sampled_from(nodes)), "jobs": jobs}
    return {"op": "build", "target": draw(st.sampled_from(sorted(cur["targets"]))), "jobs": jobs}


@st.composite
def desc_edit(draw, cur, sources, extra_id):
    shells = [c for c in cur["commands"] if c["tool"] == "shell"]
    kind = draw(st.sampled_from(["salt", "salt", "add-input", "remove-input", "remove-cmd", "add-cmd", "produce-source",
                                 "produce-virtual"]))
    if kind == "produce-virtual":
        # a virtual node that nothing produced so far gains a producer (which also writes a file)
        used = {n for c in cur["commands"] for n in c.get("inputs", [])} | {n for t in cur["targets"].values() for n in t}
        orphans = [n for n in sorted(used) if bm.is_virtual(n) and not any(n in c["outputs"] for c in cur["commands"])]
        if orphans:
            extra_id[0] += 1
            free = [x for x in sources if not any(x in c["outputs"] for c in cur["commands"])]
            ins = [draw(st.sampled_from(free))] if free and draw(st.booleans()) else []
            return {"kind": "add-cmd", "cmd": {"name": "GV%d" % extra_id[0], "tool": "shell", "inputs": ins,
                                              "outputs": [orphans[0], "gv%d_0" % extra_id[0]], "salt": "v"},
                    "target": None, "front": True}
        kind = "salt"
    if kind == "salt" and shells:
        c = draw(st.sampled_from(shells))
        return {"kind": "salt", "cmd": c["name"], "salt": "n%d" % draw(st.integers(0, 4))}
    if kind == "add-input" and shells:
        c = draw(st.sampled_from(shells))
        idx = cur["commands"].index(c)
        before = [o for d in cur["commands"][:idx] for o in d["outputs"] if not bm.is_virtual(o)] + sources
        cand = [x for x in before if x not in c["inputs"] and x not in c["outputs"]]
        if cand:
            return {"kind": "add-input", "cmd": c["name"], "input": draw(st.sampled_from(cand))}
    if kind == "remove-input" and shells:
        c = draw(st.sampled_from(shells))
        if c["inputs"]:
            return {"kind": "remove-input", "cmd": c["name"], "input": draw(st.sampled_from(c["inputs"]))}
    if kind == "remove-cmd" and len(cur["commands"]) > 1:
        # a symlink left behind by a removed symlink command would be a "source" whose existence
        # (stat follows it) depends on build progress: excluded by construction
        cands = [c for c in cur["commands"] if c["tool"] != "symlink"]
        if not cands:
            return None
        c = draw(st.sampled_from(cands))
        # keep every target non-empty in terms of still-defined or source nodes (a target may list
        # a node nobody produces any more: it is then a plain file node)
        return {"kind": "remove-cmd", "cmd": c["name"]}
    if kind == "add-cmd":
        extra_id[0] += 1
        allouts = [o for d in cur["commands"] for o in d["outputs"] if not bm.is_virtual(o)]
        pool = allouts + sources
        nin = draw(st.integers(0, min(2, len(pool))))
        ins = draw(st.permutations(pool))[:nin]
        name = "X%d" % extra_id[0]
        tgt = draw(st.sampled_from(sorted(cur["targets"])))
        return {"kind": "add-cmd", "cmd": {"name": name, "tool": "shell", "inputs": ins, "outputs": ["x%d_0" % extra_id[0]],
                                          "salt": "x"}, "target": tgt}
    if kind == "produce-source" and sources:
        consumed = [s for s in sources if any(s in c.get("inputs", []) for c in cur["commands"])
                    and not any(s in c["outputs"] for c in cur["commands"]) and s not in extra_id[1]
                    # nothing is ever produced beneath the directory-tree input sd/ (docs/buildsystem.rst: the
                    # graph must then order the producer before the tree node, which the evaluator does not model)
                    and not s.startswith("sd/")]
        if consumed:
            extra_id[0] += 1
            s = draw(st.sampled_from(consumed))
            others = [x for x in sources if x != s and not any(x in c["outputs"] for c in cur["commands"])]
            ins = [draw(st.sampled_from(others))] if others and draw(st.booleans()) else []
            return {"kind": "add-cmd", "cmd": {"name": "G%d" % extra_id[0], "tool": "shell", "inputs": ins,
                                              "outputs": [s], "salt": "g"}, "target": None, "front": True}
    return None


def is_acyclic(desc):
    prod = bm.producers(desc)
    state = {}

    def visit(c):
        st_ = state.get(c["name"])
        if st_ == 1:
            return False
        if st_ == 2:
            return True
        state[c["name"]] = 1
        for i in c.get("inputs", []):
            p = prod.get(i)
            if p is not None and not visit(p):
                return False
        state[c["name"]] = 2
        return True
    return all(visit(c) for c in desc["commands"])


def apply_desc_edit(desc, e):
    if e["kind"] == "salt":
        for c in desc["commands"]:
            if c["name"] == e["cmd"]:
                c["salt"] = e["salt"]
    elif e["kind"] == "add-input":
        for c in desc["commands"]:
            if c["name"] == e["cmd"] and e["input"] not in c["inputs"]:
                c["inputs"] = c["inputs"] + [e["input"]]
    elif e["kind"] == "remove-input":
        for c in desc["commands"]:
            if c["name"] == e["cmd"]:
                c["inputs"] = [i for i in c["inputs"] if i != e["input"]]
    elif e["kind"] == "remove-cmd":
        desc["commands"] = [c for c in desc["commands"] if c["name"] != e["cmd"]]
    elif e["kind"] == "add-cmd":
        if e.get("front"):
            desc["commands"] = [copy.deepcopy(e["cmd"])] + desc["commands"]
        else:
            desc["commands"] = desc["commands"] + [copy.deepcopy(e["cmd"])]
        if e.get("target"):
            desc["targets"][e["target"]] = desc["targets"][e["target"]] + [e["cmd"]["outputs"][0]]


def strategy(tier):
    return case()


def run_history(case, ctx, on_build):
    """Shared driver: applies the ops and calls on_build(ws, desc, op, result, nbuild) after every build."""
    ws = bm.Workspace(ctx)
    sess = [None, None]

    def end_session():
        if sess[0] is not None:
            sess[0].close()
        sess[0] = None
    try:
        desc = copy.deepcopy(case["desc"])
        for s, text in desc["sources"].items():
            ws.write(s, text)
        bm.write_description(ws, desc)
        nb = 0
        for op in case["ops"]:
            o = op["op"]
            if o == "write":
                ws.write(op["path"], op["text"], inplace=op.get("inplace", False))
            elif o == "delete":
                ws.delete(op["path"])
            elif o == "desc":
                apply_desc_edit(desc, op["edit"])
                bm.write_description(ws, desc)
                end_session()
            elif o == "fault":
                ws.set_fault(op["cmd"], op["fault"])
            elif o == "build":
                nb += 1
                if case.get("session"):
                    if sess[0] is not None and (sess[1] != op.get("jobs") or sess[0].dead):
                        end_session()
                    if sess[0] is None:
                        sess[0] = bm.Session(ws, jobs=op.get("jobs"), db=case.get("db", True))
                        sess[1] = op.get("jobs")
                    else:
                        reused[0] += 1
                    r = sess[0].build(target=op.get("target"), node=op.get("node"))
                else:
                    r = ws.build(target=op.get("target"), node=op.get("node"), jobs=op.get("jobs"),
                                 db=case.get("db", True))
                v = on_build(ws, desc, op, r, nb)
                if v:
                    return v
        return None
    finally:
        end_session()
        ws.cleanup()


reused = [0]


def roots_of(desc, op):
    if op.get("node") is not None:
        return [op["node"]]
    return list(desc["targets"][op.get("target") or desc["default"]])


def run_case(case, ctx, verbose=False):
    info = {"builds": 0, "reuse": False, "desc_edit": any(o["op"] == "desc" for o in case["ops"]),
            "file_edit": any(o["op"] in ("write", "delete") for o in case["ops"]), "failed": 0, "jobs": False}

    def on_build(ws, desc, op, r, nb):
        info["builds"] += 1
        if op.get("jobs"):
            info["jobs"] = True
        if r.timed_out:
            return "build %d hung" % nb
        if r.crashed():
            return "build %d: front end crashed (rc=%s): %s" % (nb, r.rc, r.stderr[-600:])
        roots = roots_of(desc, op)
        if not is_acyclic(desc):
            return None            # (only in hand-written / older replay files: generated edits keep the graph a DAG)
        ev = bm.Evaluator(ws, desc)
        cmds = ev.evaluate(roots)
        if not r.ok:
            info["failed"] += 1
            if ev.missing_inputs:
                return None          # legitimately failing build (missing declared input)
            return "build %d of %s failed although every declared input exists: %s | %s" % (
                nb, roots, [e for e in r.events if e[0] in ("error", "diag", "missing-inputs")][:3], r.stderr[-300:])
        if ev.missing_inputs:
            return None              # don't-care: llbuild may or may not need the missing input
        v, cmds, _ = bm.check_outputs(ws, desc, roots)
        if v:
            return "build %d of %s: %s" % (nb, roots, v)
        ran = set(r.ran())
        shells = [c["name"] for c in cmds if c["tool"] == "shell"]
        if nb >= 2 and shells and any(c not in ran for c in shells) and ran:
            info["reuse"] = True
        return None

    reused[0] = 0
    v = run_history(case, ctx, on_build)
    classes = []
    if reused[0]:
        classes.append("frontend-reused")
    if info["desc_edit"]:
        classes.append("desc-edit")
    if info["jobs"]:
        classes.append("parallel")
    if info["failed"]:
        classes.append("legit-failure")
    nt = info["builds"] >= 2 and info["desc_edit"] and info["file_edit"] and info["reuse"]
    if info["reuse"]:
        classes.append("partial-rebuild")
    return Outcome(v, nontrivial=nt, classes=classes)
