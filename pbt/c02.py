"""C02 -- work happens at most once per build and only for a true, reported reason."""
import os

import common
from common import Outcome
import engine_model as em

ID = "C02"
LEVEL = "exploration"
FLAVOURS = ["rel"]
TARGETS = ["enginesim"]
RULE = ("Same generator family as C01 (DAG programs x histories of set/tamper/redefine/restart/build under "
        "generated schedules, with identical-value recomputation and force-change made frequent). The oracle "
        "is a shadow ledger kept by the checker purely from the callback trace, in its own epoch counter: for "
        "every task creation it demands (1) at most one per rule per build, (2) a true justification (never "
        "completed / signature changed / isResultValid returned false in this build / a recorded non-order-only, "
        "non-single-use dependency whose value changed after the rule was last up to date / interrupted), "
        "(3) that the reason passed to determinedRuleNeedsToRun is true, (4) that an immediate rebuild of the "
        "same key executes nothing. Non-trivial = a build with >= 1 execution and >= 1 up-to-date rule that "
        "follows an earlier build; distinct = sha1 of the canonical case.")
ASSUMPTIONS = [
    "the ledger's notion of 'changed' is byte inequality with the previously completed value, or force-change",
    "a rule whose previous execution was interrupted may report any reason (the enum has no value for it)",
]

REASONS = {0: "NeverBuilt", 1: "SignatureChanged", 2: "InvalidValue", 3: "InputRebuilt", 4: "Forced"}


def budget(tier):
    return 25000 if tier == "quick" else 400000


def strategy(tier):
    return em.history_case()


class Ledger:
    def __init__(self):
        self.rules = {}
        self.epoch = 0

    def get(self, k):
        r = self.rules.get(k)
        if r is None:
            r = {"completed": False, "sig": None, "value": None, "deps": [], "upToDate": 0, "changed": 0,
                 "interrupted": False, "lastExec": 0}
            self.rules[k] = r
        return r

    def reset(self):
        self.rules = {}


def check_ledger(case, trace, allow_interrupted=True):
    """-> (violation or None, info)"""
    led = Ledger()
    builds = trace["builds"]
    bi = 0
    info = {"nontrivial": False, "null_builds": 0, "identical_recompute": False, "orderonly_skip": False}
    last_success = None   # (key, engine generation) of the last successful build with no op since
    for i, op, w in em.replay_world(case):
        o = op["op"]
        if o in ("restart", "redef", "undef"):
            if not case.get("db"):
                led.reset()
            else:
                # in-memory-only knowledge is lost, the persisted record is not
                pass
        if o != "build":
            if o not in ("restart", "reset"):
                last_success = None
            elif o == "restart" and not case.get("db"):
                last_success = None
            continue
        if bi >= len(builds):
            return "trace has fewer builds than the script", info
        b = builds[bi]
        bi += 1
        led.epoch += 1
        e = led.epoch
        created = {}
        tid2key = {}
        invalid = set()
        needs = {}
        reqs = {}
        discs = {}
        completes = {}
        executed = set()
        uptodate = set()
        cancelled = False
        failed = False
        for ev in b["events"]:
            tag = ev[0]
            if tag == "valid":
                if ev[2] == "0":
                    invalid.add(ev[1])
            elif tag == "needs":
                if ev[1] in needs:
                    return "build %d: determinedRuleNeedsToRun reported twice for %s" % (b["n"], ev[1]), info
                needs[ev[1]] = (int(ev[2]), ev[3])
            elif tag == "create":
                k = ev[1]
                if k in created:
                    return "build %d: rule %s executed twice in one build" % (b["n"], k), info
                created[k] = ev[2]
                tid2key[ev[2]] = k
                executed.add(k)
                r = led.get(k)
                sig = w.signature(k)
                just = []
                if not r["completed"]:
                    just.append("never")
                if r["completed"] and r["sig"] != sig:
                    just.append("sig")
                if k in invalid:
                    just.append("invalid")
                changed_inputs = [d for d, fl in r["deps"] if fl == 0 and led.get(d)["changed"] > r["upToDate"]]
                if r["completed"] and changed_inputs:
                    just.append("input")
                if r["interrupted"]:
                    just.append("interrupted")
                if not just:
                    return ("build %d: rule %s executed without justification (completed, same signature, "
                            "valid, no recorded dependency changed since it was last up to date; deps=%s)"
                            % (b["n"], k, r["deps"])), info
                if k not in needs:
                    return "build %d: rule %s executed without a determinedRuleNeedsToRun report" % (b["n"], k), info
                reason, inp = needs[k]
                ok = False
                if r["interrupted"] and allow_interrupted:
                    ok = True
                elif reason == 0:
                    ok = not r["completed"]
                elif reason == 1:
                    ok = r["completed"] and r["sig"] != sig
                elif reason == 2:
                    ok = k in invalid
                elif reason == 3:
                    ok = r["completed"] and inp in changed_inputs
                if not ok:
                    return ("build %d: rule %s reported reason %s(%s) which is false of the history "
                            "(true justifications: %s)" % (b["n"], k, REASONS.get(reason, reason), inp, just)), info
                if "input" in just and len(just) == 1:
                    pass
                r["interrupted"] = True
                r["lastExec"] = e
                reqs[k] = []
                discs[k] = []
            elif tag == "request":
                k = tid2key.get(ev[1])
                fl = {"r": 0, "m": 1, "s": 2}[ev[3]]
                reqs[k].append((ev[2], fl))
            elif tag == "disc":
                discs[tid2key.get(ev[1])].append((ev[2], 0))
            elif tag == "complete":
                completes[tid2key.get(ev[1])] = (ev[2], ev[3] == "1")
            elif tag == "status":
                k = ev[1]
                if ev[2] == "1":
                    r = led.get(k)
                    if not r["completed"]:
                        return "build %d: rule %s reported up-to-date but never completed" % (b["n"], k), info
                    r["upToDate"] = e
                    uptodate.add(k)
                elif ev[2] == "2":
                    r = led.get(k)
                    if k not in completes:
                        return "build %d: rule %s reported complete without a completion" % (b["n"], k), info
                    val, force = completes[k]
                    if (not r["completed"]) or force or r["value"] != val:
                        r["changed"] = e
                    else:
                        info["identical_recompute"] = True
                    r["completed"] = True
                    r["value"] = val
                    r["sig"] = w.signature(k)
                    r["deps"] = reqs.get(k, []) + discs.get(k, [])
                    r["upToDate"] = e
                    r["interrupted"] = False
            elif tag == "cancel-issued":
                cancelled = True
            elif tag in ("cycle", "error", "deadlock"):
                failed = True
        for k in needs:
            if k not in created and not cancelled and not failed:
                return "build %d: rule %s reported as needing to run but never executed" % (b["n"], k), info
        ok_build = not cancelled and not failed and (b["end"] or {}).get("result", "-") != "-"
        if last_success == op["key"] and ok_build and executed:
            return ("build %d: immediate rebuild of %s with no intervening change executed %s"
                    % (b["n"], op["key"], sorted(executed))), info
        if last_success == op["key"] and ok_build:
            info["null_builds"] += 1
        last_success = op["key"] if ok_build else None
        if bi >= 2 and executed and uptodate:
            info["nontrivial"] = True
    return None, info


def run_case(case, ctx, verbose=False):
    db = ctx.fresh("db")
    res = em.run_enginesim(em.script_for(case, db))
    if case.get("db"):
        for suf in ("", "-journal"):
            try:
                os.unlink(db + suf)
            except OSError:
                pass
    if res.timed_out:
        return Outcome("enginesim hung (watchdog)")
    if res.rc != 0:
        return Outcome("enginesim exited %d: %s" % (res.rc, (res.stderr or res.raw)[-600:]))
    v, info = check_ledger(case, res.events)
    classes = []
    if info["nontrivial"]:
        classes.append("exec+uptodate")
    if info["null_builds"]:
        classes.append("null-build")
    if info["identical_recompute"]:
        classes.append("identical-recompute")
    if case.get("db"):
        classes.append("db")
    if any(o["op"] in ("restart", "redef", "undef") for o in case["ops"]):
        classes.append("restart")
    return Outcome(v, nontrivial=info["nontrivial"], classes=classes)
