"""C04 -- killing the process at any instant leaves a usable, consistent database."""
import copy
import os
import shutil
import subprocess

from hypothesis import strategies as st

import common
from common import Outcome, BIN
import engine_model as em
import c01

ID = "C04"
LEVEL = "fault_enumeration"
FLAVOURS = ["rel"]
TARGETS = ["enginesim", "killshim"]
RULE = ("Hypothesis generates an engine program with artifact-bearing rules and a history with the database attached; "
        "one build is the victim. The builds before it run in process A (none, and no database file, when the victim is the first build: it then also creates the file); the victim runs in process B under "
        "killshim.so (LD_PRELOAD), which counts every write/pwrite/fsync/fdatasync/ftruncate/unlink/rename/"
        "open(O_CREAT) that touches the database file or its journal: T calls. The check then ENUMERATES N = 1..T "
        "(stride-sampled above the cap, counted), restoring the pre-victim database and delivering SIGKILL before "
        "call N; the rest of the history runs in a fresh process C, with the artifacts the killed build already "
        "wrote left in place. Oracles right after the kill (raw sqlite3 + fresh BuildDB + PRAGMA integrity_check): "
        "the file opens; iteration >= every row's epochs; every dependency id resolves; the rows equal either the "
        "checker's ledger before the victim build or the ledger after all completions the victim had processed -- "
        "value, signature, epochs and the dependency list of that same execution -- never a mixture. Afterwards "
        "every build of process C returns the reference evaluator's clean value and hands tasks only fresh values. "
        "Non-trivial = a kill point strictly inside the transaction (after the first row write, before the commit) "
        "of a victim that had already rewritten >= 1 artifact, followed by a successful later build; distinct = "
        "sha1 of (case, kill point).")
ASSUMPTIONS = ["process death only (page cache survives): power loss / torn sectors are outside the statement",
               "kill points are the system-call boundaries at which the database file can change"]

SHIM = os.path.join(os.path.dirname(BIN["rel"]), "lib", "libkillshim.so")
_TIER = {"v": "quick"}


def budget(tier):
    return 1200 if tier == "quick" else 30000


def point_cap(tier):
    return 40 if tier == "quick" else 100000


@st.composite
def kill_case(draw):
    c = draw(em.history_case(max_ops=8, force_db=True, modes=("sync", "sync", "idle"),
                             program_kw={"max_leaves": 3, "max_derived": 6}))
    # more artifacts: they are what a killed build leaves behind
    for r in c["rules"]:
        if not r["leaf"] and draw(st.booleans()):
            r["art"] = True
    builds = [i for i, op in enumerate(c["ops"]) if op["op"] == "build"]
    vi = draw(st.sampled_from(builds))
    leaves = [r["key"] for r in c["rules"] if r["leaf"]]
    derived = [r["key"] for r in c["rules"] if not r["leaf"]]
    if not [i for i in builds if i > vi]:
        for _ in range(draw(st.integers(0, 2))):
            c["ops"].append({"op": "set", "key": draw(st.sampled_from(leaves)), "v": draw(st.integers(0, 5))})
        c["ops"].append(draw(em.build_op(derived[-2:] + [c["ops"][vi]["key"]] * 2, ("sync", "idle"))))
    c["victim"] = vi
    c["offset"] = draw(st.integers(0, 1000))
    return c


def strategy(tier):
    _TIER["v"] = tier
    return kill_case()


def state_after(case, upto):
    """(program rules dict, ext) after applying ops[:upto] (no builds needed)."""
    w = em.World(case["rules"], case.get("init"))
    for op in case["ops"][:upto]:
        if op["op"] == "set":
            w.ext[op["key"]] = op["v"]
        elif op["op"] == "redef":
            w.program[op["rule"]["key"]] = op["rule"]
        elif op["op"] == "undef":
            w.program.pop(op["key"], None)
    return w


def arts_from(raw, arts):
    for line in raw.splitlines():
        t = line.split(" ")
        if t[0] == "art":
            arts[t[1]] = "" if t[2] == "-" else t[2]
        elif t[0] == "tamper-applied":
            pass
    return arts


def sub_case(case, w, arts, ops):
    """A case that starts from the given world state (program, external values, artifacts)."""
    rules = list(w.program.values())
    pre = [{"op": "tamper", "key": k, "v": v} for k, v in sorted(arts.items())]
    return {"db": True, "front": "cxx", "rules": rules, "init": dict(w.ext), "ops": pre + ops, "npre": len(pre)}


def run_script(script, env=None, timeout=120):
    e = dict(os.environ)
    e["ASAN_OPTIONS"] = "detect_leaks=0"
    if env:
        e.update(env)
    try:
        p = subprocess.run([os.path.join(BIN["rel"], "enginesim")], input=script.encode(), stdout=subprocess.PIPE,
                           stderr=subprocess.PIPE, env=e, timeout=timeout)
    except subprocess.TimeoutExpired as ex:
        return -999, (ex.stdout or b"").decode("latin-1"), ""
    return p.returncode, p.stdout.decode("latin-1"), p.stderr.decode("latin-1")


def ledger_replay(case_like, trace, ledger):
    """Feed the processed completions of a trace into the ledger. Returns last epoch."""
    epoch = None
    bi = 0
    builds = trace["builds"]
    for i, op, w in em.replay_world(case_like):
        if op["op"] != "build":
            continue
        if bi >= len(builds):
            break
        b = builds[bi]
        bi += 1
        s = em.summarize_build(b)
        ep = None
        if b["end"] is not None:
            ep = int(b["end"].get("epoch", 0))
        ledger.update(s, w, ep if ep is not None else -1)
        if ep is not None:
            epoch = ep
    return epoch


def copy_ledger(l):
    n = em.CompletionLedger()
    n.rows = copy.deepcopy(l.rows)
    return n


def run_case(case, ctx, verbose=False):
    db = ctx.fresh("db")
    pristine = db + ".pre"
    try:
        vi = case["victim"]
        # ---------------- process A: everything before the victim build
        partA = dict(case)
        partA["ops"] = case["ops"][:vi]
        if not any(op["op"] == "build" for op in partA["ops"]):
            # the victim is the first build of the history: process A must not even attach the database, so that
            # the victim is also the process that CREATES the file (schema creation is part of what can be killed)
            rcA, rawA, errA = 0, "", ""
        else:
            rcA, rawA, errA = run_script(em.script_for(partA, db, dump=True, flush=True))
        if rcA != 0:
            return Outcome("process A (before the victim) failed rc=%s %s" % (rcA, errA[-300:]))
        traceA = em.parse_trace(rawA)
        v, _ = c01.check_values(partA, traceA)
        if v:
            return Outcome("before the victim build: " + v)
        ledger_pre = em.CompletionLedger()
        epoch_pre = ledger_replay(partA, traceA, ledger_pre) or 0
        arts = arts_from(rawA, {})
        for op in case["ops"][:vi]:
            if op["op"] == "tamper":
                arts[op["key"]] = op["v"]
        # replay order matters (tamper then build overwrites); recompute precisely from the raw trace order
        arts = {}
        bi = 0
        lines = rawA.splitlines()
        # interleave: walk ops and the trace builds in order
        build_chunks = []
        cur = None
        for line in lines:
            if line.startswith("build-begin"):
                cur = []
            elif line.startswith("build-end"):
                build_chunks.append(cur or [])
                cur = None
            elif cur is not None:
                cur.append(line)
        for op in case["ops"][:vi]:
            if op["op"] == "tamper":
                arts[op["key"]] = op["v"]
            elif op["op"] == "build" and bi < len(build_chunks):
                arts_from("\n".join(build_chunks[bi]), arts)
                bi += 1
        if os.path.exists(db):
            shutil.copy(db, pristine)
        else:
            open(pristine, "wb").close()
        w_pre = state_after(case, vi)
        victim_op = case["ops"][vi]
        rest_ops = case["ops"][vi + 1:]

        def restore():
            for suf in ("", "-journal"):
                try:
                    os.unlink(db + suf)
                except OSError:
                    pass
            if os.path.getsize(pristine) > 0:
                shutil.copy(pristine, db)

        # ---------------- process B in counting mode
        subB = sub_case(case, w_pre, arts, [victim_op])
        scriptB = em.script_for(subB, db, dump=False, flush=True)
        cntfile = db + ".cnt"
        restore()
        rcB, rawB, errB = run_script(scriptB, env={"LD_PRELOAD": SHIM, "VERIF_KILL_PATH": db,
                                                   "VERIF_KILL_COUNT_FILE": cntfile})
        if rcB != 0:
            return Outcome("victim process (counting mode) failed rc=%s %s" % (rcB, errB[-300:]))
        try:
            T = int(open(cntfile).read().strip())
        except (OSError, ValueError):
            return Outcome("harness: no count from killshim")
        traceB = em.parse_trace(rawB)
        ledger_full = copy_ledger(ledger_pre)
        epoch_full = ledger_replay(subB, traceB, ledger_full) or epoch_pre
        points = list(range(1, T + 1))
        cap = point_cap(_TIER["v"])
        capped = 0
        if len(points) > cap:
            stride = (len(points) + cap - 1) // cap
            points = points[case.get("offset", 0) % stride::stride]
            capped = 1
        if case.get("only_point"):
            points = [case["only_point"]]
        nontrivial = 0
        total = 0
        for N in points:
            restore()
            rc, raw, err = run_script(scriptB, env={"LD_PRELOAD": SHIM, "VERIF_KILL_PATH": db, "VERIF_KILL_AT": str(N)})
            total += 1
            if rc != -9:
                if rc == 0:
                    continue      # fewer calls this time (nothing to kill): counted as not reached
                return Outcome("kill before call %d: victim exited %s instead of being killed: %s" % (N, rc, err[-300:]))
            # what had the victim done?
            trace_k = em.parse_trace(raw)
            arts_k = dict(arts)
            arts_from(raw, arts_k)
            ledger_k = copy_ledger(ledger_pre)
            # completions the victim had processed before dying (status IsComplete printed before the row write)
            if trace_k["builds"]:
                bk = trace_k["builds"][-1]
                sk = em.summarize_build(bk)
                w_v = state_after(case, vi)
                ledger_k.update(sk, w_v, epoch_pre + 1)
            # ---------------- process C
            subC = sub_case(case, w_pre, arts_k, rest_ops)
            # the dump has to come before the engine touches the file: put it first
            scriptC = em.script_for(subC, db, dump=True, flush=False)
            scriptC = scriptC.replace("restart\n", "dbdump\nrestart\n", 1)
            rcC, rawC, errC = run_script(scriptC)
            what = "kill before database call %d of %d" % (N, T)
            if rcC != 0:
                return Outcome("%s: the next process failed rc=%s: %s" % (what, rcC, (errC or rawC)[-400:]),
                               detail={"kill_points": total})
            traceC = em.parse_trace(rawC)
            dumps = [x[1] for b in traceC["builds"][:1] for x in b["pre"] if isinstance(x, tuple) and x[0] == "dbdump"]
            dumps += [x[1] for x in traceC["trailing"] if isinstance(x, tuple) and x[0] == "dbdump"]
            if not dumps:
                return Outcome("%s: harness: no database dump" % what)
            dump = dumps[0]
            def snapshot_matches(ledger):
                def benign(e):
                    # file absent, or present without any table yet (the engine recreates the schema)
                    if "openerror" in e:
                        return True
                    t = e.split(" ")
                    return t[1] == "sqlerror" and b"no such table" in em.unhx(t[2])
                if dump["errors"] and not all(benign(e) for e in dump["errors"]):
                    return "the database cannot be read: %s" % dump["errors"][:2]
                if dump["info"] is None and not dump["rows"] and not dump["keys"]:
                    # no schema (yet): an empty database -- fine iff nothing was supposed to be stored
                    bad = [x for x in dump["integrity"] if x != "6f6b"]
                    if bad:
                        return "integrity_check: %s" % bad
                    return None if not ledger.rows else "the database is empty but results had been stored"
                return em.check_db(dump, ledger, strict_computed=True)
            v_pre = snapshot_matches(ledger_pre)
            inside = False
            if v_pre is not None:
                v_post = snapshot_matches(ledger_k)
                if v_post is not None:
                    v_full = snapshot_matches(ledger_full)
                    if v_full is not None:
                        return Outcome("%s: the database is neither the pre-build snapshot (%s) nor the snapshot "
                                       "with the victim's processed completions (%s)" % (what, v_pre, v_post),
                                       detail={"kill_points": total})
            else:
                inside = bool(trace_k["builds"]) and bool(em.summarize_build(trace_k["builds"][-1])["complete_status"])
            # later builds converge
            v, info = c01.check_values(subC, traceC)
            if v:
                return Outcome("%s, then: %s" % (what, v), detail={"kill_points": total})
            wrote_art = any(l.startswith("art ") for l in raw.splitlines())
            if inside and wrote_art and info["builds"] >= 1:
                nontrivial += 1
        classes = []
        if capped:
            classes.append("cap-hit")
        if nontrivial:
            classes.append("kill-inside-transaction-after-artifact-write")
        return Outcome(None, nontrivial=nontrivial > 0, classes=classes,
                       detail={"kill_points": total, "nontrivial_points": nontrivial, "cap_hits": capped,
                               "db_syscalls_in_victims": T})
    finally:
        for suf in ("", "-journal", ".pre", ".cnt"):
            try:
                os.unlink(db + suf)
            except OSError:
                pass
