"""C20 -- the C API is a faithful binding of the engine."""
import os

from hypothesis import strategies as st

import common
from common import Outcome
import engine_model as em
import c01

ID = "C20"
LEVEL = "exploration"
FLAVOURS = ["rel"]
TARGETS = ["enginesim"]
RULE = ("C01/C03-style programs and histories restricted to what core.h can express (no rule signature, no "
        "prior-value callback, no single-use request, no cancel): static and value-dependent dynamic requests, "
        "must-follow, discovered dependencies, force_change, is_result_valid, update_status, attach_db with a "
        "generated client schema version (incl. version changes between restarts), keys/values with NUL and "
        "0xff. Each case is run once through C++ Rule/Task subclasses and once through llb_buildengine_* with "
        "the same model; the traces (every callback with arguments, executions, statuses, completions, "
        "returned values, cycle lists, errors) must be equal event by event after dropping the two callbacks "
        "the C interface does not have, and the raw database dumps must be equal after every build; the C "
        "trace must additionally satisfy C01's value/freshness oracle. Non-trivial = a history in which a "
        "parameter's effect is observable: a force-change rule recomputed an identical value with a dependent "
        "present, or a must-follow / discovered edge or a schema-version change was exercised in a build after "
        "the first; distinct = sha1 of the case. In 5 cases of 8 every key carries a build-system kind prefix "
        "(node, command, custom task with its 4-byte length: all such keys are equal up to their first NUL byte) "
        "and after every build the file is also read back through llb_database_* (epoch, get_keys_and_results, "
        "lookup_rule_result per key): keys, values, epochs and dependency keys must equal what a fresh "
        "core::BuildDB returns; such a case with two keys equal up to the first NUL is non-trivial too.")
ASSUMPTIONS = ["both front ends are driven by the same C++ model code inside enginesim; only the binding layer differs"]


def budget(tier):
    return 20000 if tier == "quick" else 400000


@st.composite
def capi_case(draw):
    c = draw(em.history_case(max_ops=10, allow_redef=False,
                             program_kw={"allow_single": False}))
    c["nosig"] = True
    c["client"] = draw(st.sampled_from([0, 1, 5]))
    if c["db"] and draw(st.integers(0, 3)) == 0:
        ops = []
        for op in c["ops"]:
            if op["op"] == "restart" and draw(st.booleans()):
                op = dict(op)
                op["client"] = draw(st.sampled_from([0, 1, 5, 9]))
                op["recreate"] = True
            ops.append(op)
        c["ops"] = ops
    # llb_database_* reads keys back as build-system keys: in half of the cases every key starts with a kind
    # identifier of the build system (node / command / custom task with its 4-byte length, which holds NUL bytes:
    # all such keys are equal up to their first NUL), and the read-back through the C interface is compared too
    pre = draw(st.sampled_from(["", "", "", "4e", "43", "5803000000", "4e00", "5801000000"]))
    if pre:
        def walk(x):
            if isinstance(x, dict):
                if isinstance(x.get("key"), str):
                    x["key"] = pre + x["key"]
                for v in x.values():
                    walk(v)
            elif isinstance(x, list):
                for v in x:
                    walk(v)
        walk(c)
        c["keyprefix"] = pre
    return c


def strategy(tier):
    return capi_case()


def normalise(raw, front):
    out = []
    for line in raw.splitlines():
        t = line.split(" ", 1)[0]
        if t in ("prior", "needs"):
            continue
        if t == "build-end":
            # the C interface exposes neither isCancelled() nor getCurrentEpoch()
            line = " ".join(f for f in line.split(" ") if not f.startswith(("cancelled=", "epoch=", "callbacks=")))
        if t == "engine-new":
            line = line.replace("front=capi", "front=X").replace("front=cxx", "front=X")
        out.append(line)
    return out


def run(case, ctx, front):
    db = ctx.fresh("db")
    res = em.run_enginesim(em.script_for(case, db, dump=True, front=front), env={"ENGINESIM_CAPI_DB": "1"})
    res.raw = res.raw.replace(db, "DB")
    for suf in ("", "-journal"):
        try:
            os.unlink(db + suf)
        except OSError:
            pass
    return res


def run_case(case, ctx, verbose=False):
    rx = run(case, ctx, "cxx")
    rc = run(case, ctx, "capi")
    for r, name in ((rx, "C++"), (rc, "C")):
        if r.timed_out:
            return Outcome("%s front end hung" % name)
        if r.rc != 0:
            return Outcome("%s front end: enginesim exited %d: %s" % (name, r.rc, (r.stderr or r.raw)[-400:]))
    a, b = normalise(rx.raw, "cxx"), normalise(rc.raw, "capi")
    classes = []
    if a != b:
        for i, (x, y) in enumerate(zip(a, b)):
            if x != y:
                ctxl = a[max(0, i - 4):i]
                return Outcome("C and C++ interfaces diverge at event %d:\n  C++: %s\n  C  : %s\n  after: %s" % (
                    i, x, y, ctxl))
        return Outcome("C and C++ traces have different lengths (%d vs %d): next %s" % (
            len(a), len(b), (a + b)[min(len(a), len(b))]))
    v, info = c01.check_values(case, rc.events)
    if v:
        return Outcome("C interface: " + v)
    # the persisted state read back through llb_database_* equals what core::BuildDB reads
    for bld in rc.events["builds"]:
        v, shared = em.check_capi_db(bld.get("db"))
        if v:
            return Outcome("reading the database back through the C interface: " + v)
        if shared:
            classes.append("db-read-back:keys-equal-up-to-first-NUL")
        if bld.get("db") and bld["db"].get("capi"):
            classes.append("db-read-back")
    # observability of parameters
    nt = "db-read-back:keys-equal-up-to-first-NUL" in classes
    builds = rc.events["builds"]
    for n, bld in enumerate(builds):
        s = em.summarize_build(bld)
        if n == 0:
            continue
        for k in s["created"]:
            spec = next((r for r in case["rules"] if r["key"] == k), None)
            if spec and not spec["leaf"]:
                if spec["force"]:
                    nt = True
                    classes.append("force-change-recompute")
                if any(i["mode"] == "m" for i in spec["ins"]):
                    nt = True
                    classes.append("must-follow")
                if s["discs"].get(k):
                    nt = True
                    classes.append("discovered")
    if any(op["op"] == "restart" and "client" in op for op in case["ops"]):
        nt = True
        classes.append("schema-version-change")
    return Outcome(None, nontrivial=nt, classes=sorted(set(classes)))
