"""C14 -- stale-file removal deletes exactly the obsolete outputs inside the allowed roots."""
import json
import os

from hypothesis import strategies as st

import common
from common import Outcome
import val

ID = "C14"
LEVEL = "exploration"
FLAVOURS = ["asan", "rel"]
TARGETS = ["valtool", "bsx"]
RULE = ("Two generated families over a path alphabet built for trouble (components from {a, ab, b, foo, foobar, "
        "'..', '.'}, optional leading '/', trailing '/', doubled '//', empty string, relative). pairs: (path, root) "
        "straight into the exported pathIsPrefixedByPath, judged by a three-valued component-wise reference "
        "(must = root modulo one trailing separator is a literal whole-component prefix; must-not = not a prefix "
        "even after collapsing empty components; otherwise don't-care). histories: 2-5 successive expected-output "
        "lists (and roots) run through the real stale-file-removal command of `bsx` with a database and a process "
        "restart between builds, on a recording FileSystem whose remove() logs and pretends; the set of removals "
        "of each build must lie between the must and may sets derived from (previous successful list \\ current "
        "list) and the roots, relative paths are never removed when roots are given, and nothing else is touched. "
        "Non-trivial = a pair with a trailing-separator root and a strictly longer path, or siblings sharing a "
        "string prefix; a history with >= 3 lists where a path leaves and re-enters; distinct = sha1 of the case.")
ASSUMPTIONS = ["'..' and '.' are ordinary components (the statement says lexically)",
               "an empty-string root is don't-care"]

COMPS = ["a", "ab", "b", "foo", "foobar", "..", "."]


def budget(tier):
    return 40000 if tier == "quick" else 1000000


@st.composite
def path(draw, allow_empty=True):
    n = draw(st.integers(0, 4))
    if n == 0 and allow_empty and draw(st.integers(0, 3)) == 0:
        return ""
    parts = [draw(st.sampled_from(COMPS)) for _ in range(max(1, n))]
    sep = lambda: "//" if draw(st.integers(0, 9)) == 0 else "/"
    s = ""
    if draw(st.integers(0, 4)) != 0:
        s = sep()
    for i, p in enumerate(parts):
        if i:
            s += sep()
        s += p
    if draw(st.integers(0, 2)) == 0:
        s += sep()
    return s


@st.composite
def related_pair(draw):
    root = draw(path())
    kind = draw(st.integers(0, 5))
    if kind == 0:
        p = draw(path())
    elif kind == 1:
        p = root.rstrip("/") + "/" + draw(st.sampled_from(COMPS)) + draw(st.sampled_from(["", "/", "/b"]))
    elif kind == 2:
        p = root.rstrip("/") + draw(st.sampled_from(["bar", "x", "", "/", "//a"]))
    elif kind == 3:
        p = root + draw(st.sampled_from(["", "a", "/a", "a/b"]))
    elif kind == 4:
        p = root[:-1] if root else "/"
    else:
        p = draw(path())
        root = p + draw(st.sampled_from(["/", "//", "x"]))
    return {"kind": "pair", "path": p, "root": root}


_HPATHS = ["/r1/a", "/r1/ab", "/r1/a/b", "/r1foo/x", "/r1/", "/r1", "/r2/foo", "/r2/foo/bar", "/r2/foobar", "/x",
           "rel/a", "rel/a/b", "rel", "a", "", "/r1//a", "/r1/../x", "/"]
_HROOTS = ["/r1", "/r1/", "/r2/foo", "/r2/foo/", "/r1/a", "/", "/r1//", "/nowhere", "r1", "rel", "rel/"]


@st.composite
def history(draw):
    n = draw(st.integers(2, 5))
    lists = [draw(st.lists(st.sampled_from(_HPATHS), min_size=0, max_size=6)) for _ in range(n)]
    # make paths leave and re-enter
    if n >= 3 and lists[0] and draw(st.booleans()):
        lists[2] = lists[2] + [lists[0][0]]
    roots = draw(st.lists(st.sampled_from(_HROOTS), min_size=1, max_size=3)) if draw(st.integers(0, 2)) else None
    change_roots = None
    if roots is not None and draw(st.integers(0, 3)) == 0:
        change_roots = draw(st.lists(st.sampled_from(_HROOTS), min_size=1, max_size=2))
    return {"kind": "history", "lists": lists, "roots": roots, "roots2": change_roots,
            "jobs": draw(st.sampled_from([None, 4])),
            "repeat": sorted(set(draw(st.lists(st.integers(0, n - 1), max_size=2)))) if draw(st.integers(0, 2)) == 0 else []}


def strategy(tier):
    # a quarter of the cases are histories (real builds), the rest predicate pairs
    return st.integers(0, 5).flatmap(lambda n: history() if n in (2, 4) else related_pair())


def must(path, root):
    r = root[:-1] if root.endswith("/") else root
    if r == "":
        # the root directory "/": exactly the absolute paths lie beneath it
        return path.startswith("/")
    return path == r or path.startswith(r + "/")


def norm(p):
    return (p.startswith("/"), [c for c in p.split("/") if c != ""])


def must_not(path, root):
    pa, pc = norm(path)
    ra, rc = norm(root)
    return not (pa == ra and pc[:len(rc)] == rc)


def verdict(path, root):
    if root == "":
        return "dontcare"
    if must(path, root):
        return "must"
    if must_not(path, root):
        return "mustnot"
    return "dontcare"


def run_case(case, ctx, verbose=False):
    if case["kind"] == "pair":
        p, r = case["path"], case["root"]
        try:
            got = val.ask("prefix %s %s" % (val.hx(p.encode()), val.hx(r.encode()))) == "1"
        except val.Died as e:
            return Outcome(e.msg)
        v = verdict(p, r)
        cls = ["pair", v]
        nt = (r.endswith("/") and len(p) > len(r)) or (p.startswith(r.rstrip("/")) and r.rstrip("/") != "" and v == "mustnot")
        if nt:
            cls.append("nontrivial-pair")
        if v == "must" and not got:
            return Outcome("pathIsPrefixedByPath(%r, %r) = false, but %r lies at or beneath root %r by whole "
                           "components" % (p, r, p, r), nontrivial=nt, classes=cls)
        if v == "mustnot" and got:
            return Outcome("pathIsPrefixedByPath(%r, %r) = true, but %r is outside root %r" % (p, r, p, r),
                           nontrivial=nt, classes=cls)
        return Outcome(None, nontrivial=nt, classes=cls)
    if case["kind"] == "history":
        import bs_model as bm
        ws = bm.Workspace(ctx)
        try:
            prev = None
            cls = ["history"] + (["roots"] if case["roots"] is not None else ["no-roots"])
            reenter = False
            seen_removed = set()
            for i, cur in enumerate(case["lists"]):
                roots = case["roots"]
                if case.get("roots2") is not None and i >= 2:
                    roots = case["roots2"]
                cmd = {"name": "SFR", "tool": "stale-file-removal", "expected": cur, "outputs": ["<sfr>"]}
                if roots is not None:
                    cmd["roots"] = roots
                desc = {"commands": [cmd], "targets": {"t": ["<sfr>"]}, "default": "t"}
                bm.write_description(ws, desc)
                if case.get("repeat") and i in case["repeat"]:
                    # this list is built twice on ONE frontend: the second build has nothing to remove
                    sess = bm.Session(ws, jobs=case["jobs"], pretend=True)
                    try:
                        r = sess.build(target="t")
                        r_again = sess.build(target="t") if r.ok else None
                    finally:
                        sess.close()
                    if r_again is not None:
                        if r_again.timed_out or r_again.crashed() or not r_again.ok:
                            return Outcome("repeated build %d on the same frontend failed: rc=%s %s" % (
                                i + 1, r_again.rc, r_again.stderr[-300:]), classes=cls)
                        again = [bm.unhx(e[1]) for e in r_again.events if e[0] == "remove"]
                        if again:
                            return Outcome("build %d repeated on the same frontend removed %s again although the "
                                           "previous successful run listed exactly the current outputs %s" % (
                                               i + 1, again, cur), classes=cls + ["same-frontend"])
                        cls.append("same-frontend")
                else:
                    r = ws.build(target="t", pretend=True, jobs=case["jobs"])
                if r.timed_out or r.crashed():
                    return Outcome("build %d crashed/hung rc=%s %s" % (i + 1, r.rc, r.stderr[-400:]), classes=cls)
                if not r.ok:
                    return Outcome("build %d failed: %s" % (i + 1, r.stderr[-300:]), classes=cls)
                removed = [bm.unhx(e[1]) for e in r.events if e[0] == "remove"]
                if len(removed) != len(set(removed)):
                    return Outcome("build %d removed a path twice: %s" % (i + 1, removed), classes=cls)
                removed = set(removed)
                cand = set(prev or []) - set(cur)
                if not removed <= cand:
                    return Outcome("build %d removed %s which %s (previous list %s, current list %s)" % (
                        i + 1, sorted(removed - cand),
                        "was not listed by the previous successful run or is still expected", prev, cur), classes=cls)
                for pth in cand:
                    if roots is None:
                        want = "must"
                    elif pth == "" or not pth.startswith("/"):
                        want = "mustnot"
                    else:
                        vs = [verdict(pth, rt) for rt in roots]
                        want = "must" if "must" in vs else "mustnot" if all(v == "mustnot" for v in vs) else "dontcare"
                    if want == "must" and pth not in removed:
                        return Outcome("build %d: stale path %r (previous %s, current %s, roots %s) was not removed" % (
                            i + 1, pth, prev, cur, roots), classes=cls)
                    if want == "mustnot" and pth in removed:
                        return Outcome("build %d: path %r lies outside the roots %s (or is relative) but was removed" % (
                            i + 1, pth, roots), classes=cls)
                if removed & set(case["lists"][0]) and i >= 2:
                    reenter = True
                prev = cur
            nt = len(case["lists"]) >= 3
            return Outcome(None, nontrivial=nt, classes=cls)
        finally:
            ws.cleanup()
    raise common.HarnessError("unknown kind")
