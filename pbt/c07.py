"""C07 -- dependency cycles are always detected and reported accurately, never falsely."""
import os

from hypothesis import strategies as st

import common
from common import Outcome
import engine_model as em

ID = "C07"
LEVEL = "exploration"
FLAVOURS = ["rel"]
TARGETS = ["enginesim"]
RULE = ("Hypothesis generates directed graphs of 2-10 rules WITHOUT the DAG constraint (static, value-dependent "
        "dynamic, must-follow and single-use edges; self-edges allowed) plus a history of leaf flips and builds "
        "under generated schedules (sync / idle / mixed). A Python fixpoint evaluator decides whether the demanded "
        "graph of the requested key contains a cycle. Cycle => build returns the empty value, cycleDetected is "
        "called exactly once, the list starts with the requested key, its last key repeats an earlier one and "
        "each consecutive pair (x,y) is a real wait-for (y requested by x's task in this build, or recorded for "
        "x by its last completed execution). No cycle => no report, no stall, value equals the evaluator's. A "
        "fourth of the cases is a motif in which the cycle exists only among RECORDED dependencies and runs through "
        "a discovered one (A requests B, B discovers A): there a well-formed report of real edges or the clean "
        "value is accepted, never a stall, crash or stale value. "
        "Non-trivial = cyclic case whose cycle does not pass through the root or only exists through a "
        "dynamic edge, or an acyclic case with >= 4 rules executed in a history with an earlier build; "
        "distinct = sha1 of the case.")
ASSUMPTIONS = ["after a build that failed with a cycle the history continues either on a restarted engine (same "
               "database) or on the same engine (generated)"]


def budget(tier):
    return 25000 if tier == "quick" else 500000


@st.composite
def graph_case(draw):
    nl = draw(st.integers(1, 3))
    nd = draw(st.integers(1, 8))
    keys = draw(em.key_pool(nl + nd))
    leaves, derived = keys[:nl], keys[nl:]
    rules = [em.leaf_rule(k, draw(em._PREFIX)) for k in leaves]
    # back-edge probability is tuned per case so that roughly half the cases are cyclic
    cyc = draw(st.integers(0, 3))
    for i, k in enumerate(derived):
        if cyc == 0:
            pool = leaves + derived[:i]
        elif cyc == 1:
            pool = leaves + derived[:i] + (derived[i:i + 2] if draw(st.integers(0, 3)) == 0 else [])
        else:
            pool = leaves + derived
        rules.append(draw(em.derived_rule(k, leaves, [], ver=0, any_keys=pool, max_ins=3)))
    init = {k: draw(st.integers(0, 3)) for k in leaves}
    ops = []
    n = draw(st.integers(1, 5))
    for _ in range(n):
        if ops and draw(st.integers(0, 1)) == 0:
            ops.append({"op": "set", "key": draw(st.sampled_from(leaves)), "v": draw(st.integers(0, 5))})
        ops.append(draw(em.build_op(derived[-2:] * 2 + derived)))
    return {"db": draw(st.booleans()), "front": "cxx", "rules": rules, "init": init, "ops": ops,
            "restart_after_failure": draw(st.booleans())}


@st.composite
def scan_cycle_case(draw):
    """Motif branch: a chain that is up to date from an earlier build, whose deepest rule
    grows a back edge when a leaf flips -- the cycle then runs through rules that are
    being *scanned* (recorded dependencies), not only through running tasks."""
    nl = draw(st.integers(1, 2))
    n = draw(st.integers(2, 6))
    keys = draw(em.key_pool(nl + n))
    leaves, chain = keys[:nl], keys[nl:]
    rules = [em.leaf_rule(k, draw(em._PREFIX)) for k in leaves]
    flip = leaves[0]
    rem = draw(st.integers(0, 1))
    back = draw(st.integers(0, n - 1))
    for i, k in enumerate(chain):
        extra = leaves + chain[i + 1:]
        r = draw(em.derived_rule(k, leaves, [], ver=0, any_keys=[x for x in extra if x != (chain[i + 1] if i + 1 < n else None)],
                                 max_ins=2, allow_force=False))
        ins = r["ins"]
        if i + 1 < n:
            pos = draw(st.integers(0, len(ins)))
            mode = draw(st.sampled_from(["r", "r", "m"]))
            ins.insert(pos, {"key": chain[i + 1], "mode": mode, "w": 1, "src": -1, "mod": 1, "rem": 0})
            for j in ins:
                if j["src"] >= pos and j is not ins[pos]:
                    j["src"] += 1
            for d in r["discs"]:
                if d["src"] >= pos:
                    d["src"] += 1
        else:
            ins[:] = [i2 for i2 in ins if i2["key"] != flip]
            for j in ins:
                j["src"] = -1
            for d in r["discs"]:
                d["src"] = -1
            base = len(ins)
            ins.append({"key": flip, "mode": "r", "w": 1, "src": -1, "mod": 1, "rem": 0})
            ins.append({"key": chain[back], "mode": draw(st.sampled_from(["r", "r", "m"])), "w": 1,
                        "src": base, "mod": 2, "rem": rem})
        # never request the same key twice
        seen = set()
        keep = []
        for j in ins:
            if j["key"] in seen:
                continue
            seen.add(j["key"])
            keep.append(j)
        if len(keep) != len(ins):
            # re-index sources after dropping duplicates: simplest is to drop conditions
            for j in keep:
                if j["key"] != chain[back] or i + 1 < n:
                    j["src"] = -1
            if i + 1 == n:
                idx = [x for x, j in enumerate(keep) if j["key"] == flip]
                for j in keep:
                    if j["key"] == chain[back] and idx:
                        j["src"] = idx[0]
            for d in r["discs"]:
                d["src"] = -1
        r["ins"] = keep
        rules.append(r)
    init = {k: draw(st.integers(0, 3)) for k in leaves}
    init[flip] = 2 + (1 - rem)            # condition false
    start = draw(st.integers(0, max(0, back)))
    ops = [draw(em.build_op([chain[start]]))]
    if draw(st.integers(0, 2)) == 0:
        ops.append(draw(em.build_op(chain)))
    ops.append({"op": "set", "key": flip, "v": 2 + rem})     # condition true
    ops.append(draw(em.build_op([chain[draw(st.integers(0, start))]])))
    if draw(st.booleans()):
        ops.append({"op": "set", "key": flip, "v": 1 - rem + 2})
        ops.append(draw(em.build_op(chain)))
    return {"db": draw(st.booleans()), "front": "cxx", "rules": rules, "init": init, "ops": ops,
            "restart_after_failure": draw(st.booleans()), "motif": "scan-cycle"}


@st.composite
def disc_cycle_case(draw):
    """Motif branch: a cycle that exists only among RECORDED dependencies and runs through a DISCOVERED one --
    A requests B, B reports A as a discovered dependency (legal: a discovered dependency never blocks the task
    that reports it). From the second build on, scanning A waits for the scan of B, which waits for the scan of
    A, with no task running anywhere."""
    nl = draw(st.integers(1, 2))
    n = draw(st.integers(2, 4))
    keys = draw(em.key_pool(nl + n))
    leaves, chain = keys[:nl], keys[nl:]
    rules = [em.leaf_rule(k, draw(em._PREFIX)) for k in leaves]
    back = draw(st.integers(0, n - 2))
    for i, k in enumerate(chain):
        ins = []
        if i + 1 < n:
            ins.append({"key": chain[i + 1], "mode": draw(st.sampled_from(["r", "r", "m"])), "w": 1, "src": -1, "mod": 1, "rem": 0})
        for lf in draw(st.permutations(leaves))[:draw(st.integers(0, nl))]:
            ins.insert(draw(st.integers(0, len(ins))), {"key": lf, "mode": "r", "w": draw(st.integers(1, 3)), "src": -1, "mod": 1, "rem": 0})
        discs = []
        if i == n - 1:
            discs.append({"key": chain[back], "w": 1, "src": -1, "mod": 1, "rem": 0})
        rules.append({"key": k, "leaf": False, "prefix": draw(em._PREFIX), "ver": 0, "mod": draw(em._MODS),
                      "salt": draw(st.integers(0, 7)), "force": False, "art": False, "ins": ins, "discs": discs})
    init = {k: draw(st.integers(0, 3)) for k in leaves}
    ops = [draw(em.build_op([chain[draw(st.integers(0, back))]]))]
    for _ in range(draw(st.integers(1, 3))):
        if draw(st.booleans()):
            ops.append({"op": "set", "key": draw(st.sampled_from(leaves)), "v": draw(st.integers(0, 5))})
        ops.append(draw(em.build_op(chain[:back + 1])))
    return {"db": draw(st.booleans()), "front": "cxx", "rules": rules, "init": init, "ops": ops,
            "restart_after_failure": draw(st.booleans()), "motif": "disc-cycle"}


def strategy(tier):
    return st.one_of(graph_case(), graph_case(), scan_cycle_case(), disc_cycle_case())


def expand_ops(case):
    """Insert a restart after every build the reference says is cyclic."""
    w = em.World(case["rules"], case.get("init"))
    out = []
    for op in case["ops"]:
        out.append(op)
        if op["op"] == "set":
            w.ext[op["key"]] = op["v"]
        elif op["op"] == "build":
            try:
                w.evaluate(op["key"])
            except em.Cycle:
                if case.get("restart_after_failure", True):
                    out.append({"op": "restart"})
    c = dict(case)
    c["ops"] = out
    return c


def check(case, trace):
    info = {"cyclic": 0, "acyclic": 0, "nontrivial": False, "dyn_cycle": False}
    led = em.DepLedger()
    builds = trace["builds"]
    bi = 0
    for i, op, w in em.replay_world(case):
        if op["op"] == "restart" and not case.get("db"):
            led = em.DepLedger()
        if op["op"] != "build":
            continue
        if bi >= len(builds):
            return "trace has fewer builds than the script", info
        b = builds[bi]
        bi += 1
        s = em.summarize_build(b)
        if s["deadlock"]:
            return "build %d of %s stalled (engine waits with nothing running)" % (b["n"], op["key"]), info
        if not s["ended"]:
            return "build %d did not end" % b["n"], info
        root = op["key"]
        try:
            edges = {}
            expect = w.evaluate(root, edges=edges)
            cyc = None
        except em.Cycle as c:
            cyc = c.path
        must_cycle = cyc is not None
        if cyc is not None:
            # A cycle that exists only through single-use edges is demanded only if the
            # rule owning the edge executes in this build, which depends on history: the
            # statement does not fix the outcome, so either a well-formed report or the
            # clean value (computed without following single-use edges) is accepted.
            try:
                expect = w.evaluate(root, skip_single=True)
                must_cycle = False
            except em.Cycle:
                pass
        if cyc is not None and not must_cycle and not s["cycles"]:
            info["single_only"] = info.get("single_only", 0) + 1
            if s["errors"]:
                return "build %d: unexpected error %s" % (b["n"], s["errors"][0]), info
            if s["result"] != expect:
                return "build %d of %s returned %s, clean value %s" % (b["n"], root, s["result"] or "-", expect), info
        elif cyc is None and case.get("motif") == "disc-cycle" and s["cycles"]:
            # The declared graph is acyclic, but the dependencies recorded by earlier builds are cyclic through
            # a discovered edge. Whether a given build runs into that cycle depends on what changed (a rule that
            # re-runs before its scan reaches the edge does not), so either the clean value or a well-formed
            # report made of real wait-for edges is accepted -- never a stall, a crash or a stale value.
            info["recorded_disc_cycle"] = info.get("recorded_disc_cycle", 0) + 1
            info["nontrivial"] = True
            if s["result"] != "":
                return "build %d of %s reported a cycle but returned %s" % (b["n"], root, s["result"]), info
            lst = s["cycles"][0]
            if len(s["cycles"]) != 1 or not lst or lst[0] != root or len(lst) < 2 or lst[-1] not in lst[:-1]:
                return "build %d of %s: malformed cycle report %s" % (b["n"], root, s["cycles"]), info
            for x, y in zip(lst, lst[1:]):
                requested = {k for k, _, _ in s["requests"].get(x, [])}
                recorded = {k for k, _ in led.deps.get(x, [])}
                if y not in requested and y not in recorded:
                    return ("build %d: cycle list %s: %s does not wait for %s (requested this build: %s, "
                            "recorded: %s)" % (b["n"], lst, x, y, sorted(requested), sorted(recorded))), info
        elif cyc is None:
            info["acyclic"] += 1
            if s["cycles"]:
                return "build %d of %s: cycle %s reported but the demanded graph is acyclic" % (
                    b["n"], root, s["cycles"][0]), info
            if s["errors"]:
                return "build %d: unexpected error %s" % (b["n"], s["errors"][0]), info
            if s["result"] != expect:
                return "build %d of %s returned %s, clean value %s" % (b["n"], root, s["result"] or "-", expect), info
            if bi >= 2 and len(s["created"]) >= 4:
                info["nontrivial"] = True
        else:
            info["cyclic"] += 1
            if s["result"] != "":
                return "build %d of %s: demanded graph has cycle %s but build returned %s" % (
                    b["n"], root, cyc, s["result"]), info
            if len(s["cycles"]) != 1:
                return "build %d of %s: demanded graph has cycle %s; cycleDetected called %d times" % (
                    b["n"], root, cyc, len(s["cycles"])), info
            lst = s["cycles"][0]
            if not lst or lst[0] != root:
                return "build %d: cycle list %s does not start with the requested key %s" % (b["n"], lst, root), info
            if len(lst) < 2 or lst[-1] not in lst[:-1]:
                return "build %d: cycle list %s does not end by repeating an earlier key" % (b["n"], lst), info
            for x, y in zip(lst, lst[1:]):
                requested = {k for k, _, _ in s["requests"].get(x, [])}
                recorded = {k for k, _ in led.deps.get(x, [])}
                if y not in requested and y not in recorded:
                    return ("build %d: cycle list %s: %s does not wait for %s (requested this build: %s, "
                            "recorded: %s)" % (b["n"], lst, x, y, sorted(requested), sorted(recorded))), info
            if any(x not in s["created"] for x in lst):
                info["scan_cycle"] = True
                info["nontrivial"] = True
            if cyc[0] != root:
                info["nontrivial"] = True
            # cycle through a conditional edge?
            for x, y in zip(cyc, cyc[1:]):
                sp = w.spec(x)
                if not sp["leaf"] and any(i["key"] == y and i["src"] >= 0 for i in sp["ins"]):
                    info["nontrivial"] = True
                    info["dyn_cycle"] = True
        led.update(s)
    return None, info


def run_case(case, ctx, verbose=False):
    case2 = expand_ops(case)
    db = ctx.fresh("db")
    res = em.run_enginesim(em.script_for(case2, db))
    if case.get("db"):
        for suf in ("", "-journal"):
            try:
                os.unlink(db + suf)
            except OSError:
                pass
    if res.timed_out:
        return Outcome("enginesim hung (watchdog)")
    if res.rc == 3:
        pass  # structural deadlock marker; reported by check()
    elif res.rc != 0:
        return Outcome("enginesim exited %d: %s" % (res.rc, (res.stderr or res.raw)[-600:]))
    v, info = check(case2, res.events)
    classes = []
    if info["cyclic"]:
        classes.append("cyclic")
    if info["acyclic"]:
        classes.append("acyclic")
    if info["cyclic"] and info["acyclic"]:
        classes.append("both-in-one-history")
    if info["dyn_cycle"]:
        classes.append("cycle-through-dynamic-edge")
    if info.get("scan_cycle"):
        classes.append("cycle-through-scanning-rule")
    if info.get("single_only"):
        classes.append("cycle-only-through-single-use")
    if case.get("motif") == "disc-cycle":
        classes.append("discovered-edge-motif")
    if info.get("recorded_disc_cycle"):
        classes.append("cycle-only-among-recorded-dependencies")
    if info["cyclic"] and not case.get("restart_after_failure", True):
        classes.append("same-engine-after-cycle")
    return Outcome(v, nontrivial=info["nontrivial"], classes=classes)
