"""C01 -- incremental build result equals a from-scratch build."""
import common
from common import Outcome
import engine_model as em

ID = "C01"
LEVEL = "exploration"
FLAVOURS = ["rel"]
TARGETS = ["enginesim"]
RULE = ("Hypothesis generates a DAG program (static / value-dependent dynamic / discovered / order-only / "
        "single-use edges, byte-string keys) and a history of {set leaf, tamper artifact, redefine rule, "
        "restart engine on the same database, build any key under a generated completion schedule}; "
        "enginesim runs it against core::BuildEngine; after every successful build the returned value and "
        "every value handed to a task are compared with a from-scratch Python reference evaluator. "
        "Non-trivial = a history with >= 2 builds in which some build after an external change left at "
        "least one rule un-executed (reuse happened) while executing at least one other; distinct = "
        "sha1 of the canonical case.")
ASSUMPTIONS = [
    "tasks are deterministic functions of requested and discovered inputs (by construction of the model)",
    "a task never requests the same key twice; discovered dependencies are leaves (BuildEngine.h:131,163-171)",
    "a rule's definition changes only together with its signature and an engine restart",
]


def budget(tier):
    return 25000 if tier == "quick" else 400000


def strategy(tier):
    return em.history_case()


def check_values(case, trace):
    """Shared by C01/C05/...: value-freshness oracle. Returns (violation, info)."""
    builds = trace["builds"]
    bi = 0
    info = {"builds": 0, "reuse_after_change": False, "restart": False, "changed": False}
    changed_since_build = False
    for i, op, w in em.replay_world(case):
        o = op["op"]
        if o in ("set", "tamper", "redef", "undef"):
            changed_since_build = True
        if o in ("restart", "redef", "undef"):
            info["restart"] = True
        if o != "build":
            continue
        if bi >= len(builds):
            return "trace has fewer builds than the script (crash?)", info
        b = builds[bi]
        bi += 1
        if b["end"] is None:
            return "build %d did not end" % b["n"], info
        info["builds"] += 1
        cancelled = any(e[0] == "cancel-issued" for e in b["events"])
        if cancelled:
            changed_since_build = True
            continue
        try:
            memo = {}
            expect = w.evaluate(op["key"], memo)
        except em.Cycle:
            continue
        got = b["end"].get("result")
        got = "" if got == "-" else got
        if any(e[0] in ("cycle", "error", "deadlock") for e in b["events"]):
            return "build %d of %s: unexpected %s" % (
                b["n"], op["key"], [e for e in b["events"] if e[0] in ("cycle", "error", "deadlock")][0]), info
        if got != expect:
            info["stale_build"] = bi - 1
            return "build %d of %s returned %s, clean build gives %s" % (b["n"], op["key"], got or "-", expect), info
        tid2key = {}
        executed = set()
        uptodate = set()
        for e in b["events"]:
            if e[0] == "create":
                tid2key[e[2]] = e[1]
                executed.add(e[1])
            elif e[0] == "status" and e[2] == "1":
                uptodate.add(e[1])
            elif e[0] == "provide":
                rk = tid2key.get(e[1])
                spec = w.spec(rk)
                idx = (int(e[2]) - 3) // 7
                if spec["leaf"] or idx >= len(spec["ins"]) or (int(e[2]) - 3) % 7:
                    return "build %d: task %s got unknown input id %s" % (b["n"], rk, e[2]), info
                want_key = spec["ins"][idx]["key"]
                if e[3] != want_key:
                    return "build %d: task %s input id %s delivered key %s, requested %s" % (
                        b["n"], rk, e[2], e[3], want_key), info
                val = "" if e[4] == "-" else e[4]
                fresh = w.evaluate(want_key, memo)
                if val != fresh:
                    info["stale_build"] = bi - 1
                    return "build %d: task %s was handed stale %s=%s (current value %s)" % (
                        b["n"], rk, want_key, val or "-", fresh), info
        if info["builds"] >= 2 and changed_since_build and executed and uptodate:
            info["reuse_after_change"] = True
        changed_since_build = False
    return None, info


def run_case(case, ctx, verbose=False):
    db = ctx.fresh("db")
    script = em.script_for(case, db)
    res = em.run_enginesim(script)
    if case.get("db"):
        for suf in ("", "-journal"):
            try:
                import os
                os.unlink(db + suf)
            except OSError:
                pass
    if res.timed_out:
        return Outcome("enginesim hung (watchdog)")
    if res.rc != 0:
        return Outcome("enginesim exited %d: %s" % (res.rc, (res.stderr or res.raw)[-600:]))
    v, info = check_values(case, res.events)
    classes = []
    if info["restart"]:
        classes.append("restart")
    if case.get("db"):
        classes.append("db")
    for op in case["ops"]:
        if op["op"] in ("redef", "undef", "tamper"):
            classes.append(op["op"])
        if op["op"] == "build" and op["mode"] != "sync":
            classes.append("mode-" + op["mode"])
    classes = sorted(set(classes))
    if info["reuse_after_change"]:
        classes.append("reuse-after-change")
    return Outcome(v, nontrivial=info["reuse_after_change"], classes=classes)
