"""Shared driver for the Hypothesis-based checks.

A property module provides:
  ID, LEVEL, RULE, FLAVOURS, ASSUMPTIONS
  budget(tier) -> number of generated cases
  strategy(tier) -> Hypothesis strategy producing a JSON-serialisable case
  run_case(case, ctx) -> Outcome
  probes(ctx) -> list of (finding_id, bool reproduced, text)   [optional]
"""
import hashlib
import json
import multiprocessing
import os
import shutil
import subprocess
import sys
import time
import traceback

VERIF = os.path.dirname(os.path.dirname(os.path.abspath(__file__)))
BUILD = os.path.join(VERIF, "build")
BIN = {f: os.path.join(BUILD, f, "bin") for f in ("rel", "asan", "tsan")}
NCPU = os.cpu_count() or 8


class Outcome:
    __slots__ = ("violation", "nontrivial", "classes", "known", "detail")

    def __init__(self, violation=None, nontrivial=False, classes=(), known=None, detail=None):
        self.violation = violation
        self.nontrivial = nontrivial
        self.classes = list(classes)
        self.known = known
        self.detail = detail


class PropertyViolation(Exception):
    pass


class HarnessError(Exception):
    pass


class Ctx:
    """Per-worker context: scratch directory + counters."""

    def __init__(self, tag):
        base = os.environ.get("VERIF_WORK")
        if not base:
            base = "/dev/shm" if os.path.isdir("/dev/shm") and os.access("/dev/shm", os.W_OK) else "/tmp"
        self.dir = os.path.join(base, "verif-%d-%s" % (os.getpid(), tag))
        os.makedirs(self.dir, exist_ok=True)
        self.counter = 0
        self.excluded = {}

    def fresh(self, name):
        self.counter += 1
        p = os.path.join(self.dir, "%s-%d" % (name, self.counter))
        return p

    def cleanup(self):
        shutil.rmtree(self.dir, ignore_errors=True)


def ensure_built(flavours, targets=None):
    cmd = [sys.executable, os.path.join(VERIF, "tools", "build.py")] + list(flavours)
    for t in targets or []:
        cmd += ["--target", t]
    r = subprocess.run(cmd)
    if r.returncode != 0:
        sys.stderr.write("harness error: build failed\n")
        sys.exit(2)


def case_hash(case):
    return hashlib.sha1(json.dumps(case, sort_keys=True).encode()).hexdigest()


def derive_seed(seed, widx):
    h = hashlib.sha256(("%d/%d" % (seed, widx)).encode()).digest()
    return int.from_bytes(h[:8], "big")


def load_known(prop_id):
    p = os.path.join(VERIF, "known_findings.json")
    if not os.path.exists(p):
        return []
    with open(p) as f:
        data = json.load(f)
    return [e for e in data.get("findings", []) if e.get("property") == prop_id and e.get("status") == "finding"]


def _worker(prop, tier, seed, widx, n_examples, q):
    from hypothesis import given, settings, seed as hseed, HealthCheck, Phase, Verbosity
    ctx = Ctx("w%d" % widx)
    stats = {"evaluations": 0, "nontrivial": set(), "classes": {}, "samples": [], "known_hits": {},
             "failure": None, "error": None, "excluded": {}, "metrics": {}}
    fail = {}

    @settings(max_examples=n_examples, database=None, deadline=None, report_multiple_bugs=False,
              suppress_health_check=list(HealthCheck), phases=(Phase.generate, Phase.shrink),
              verbosity=Verbosity.quiet, derandomize=False)
    @hseed(derive_seed(seed, widx))
    @given(prop.strategy(tier))
    def test(case):
        out = prop.run_case(case, ctx)
        stats["evaluations"] += 1
        for c in out.classes:
            stats["classes"][c] = stats["classes"].get(c, 0) + 1
        if out.known:
            stats["known_hits"][out.known] = stats["known_hits"].get(out.known, 0) + 1
        if isinstance(out.detail, dict):
            for k, v in out.detail.items():
                if isinstance(v, (int, float)):
                    stats["metrics"][k] = stats["metrics"].get(k, 0) + v
        if out.nontrivial:
            h = case_hash(case)
            if h not in stats["nontrivial"]:
                stats["nontrivial"].add(h)
                if len(stats["samples"]) < 2:
                    stats["samples"].append(case)
        if out.violation and not out.known:
            size = len(json.dumps(case))
            if "case" not in fail or size <= fail["size"]:
                fail.update(case=case, msg=out.violation, size=size)
            raise PropertyViolation(out.violation)

    try:
        test()
    except PropertyViolation:
        stats["failure"] = {"case": fail.get("case"), "msg": fail.get("msg")}
    except BaseException as e:  # harness error: never a pass, never a violation
        if fail:
            stats["failure"] = {"case": fail.get("case"), "msg": fail.get("msg")}
        else:
            stats["error"] = "".join(traceback.format_exception(type(e), e, e.__traceback__))[-4000:]
    stats["excluded"] = ctx.excluded
    stats["nontrivial"] = list(stats["nontrivial"])
    ctx.cleanup()
    q.put(stats)


def write_evidence(prop, tier, seed, coverage, wall, violations):
    os.makedirs(os.path.join(VERIF, "evidence"), exist_ok=True)
    ev = {
        "property_id": prop.ID,
        "tier": tier,
        "seed": seed,
        "level": prop.LEVEL,
        "coverage": coverage,
        "assumptions": list(getattr(prop, "ASSUMPTIONS", [])),
        "wall_s": round(wall, 2),
        "violations": violations,
    }
    with open(os.path.join(VERIF, "evidence", prop.ID + ".json"), "w") as f:
        json.dump(ev, f, indent=1, sort_keys=True)


def save_replay(prop_id, case):
    os.makedirs(os.path.join(VERIF, "replays"), exist_ok=True)
    h = case_hash(case)[:12]
    p = os.path.join(VERIF, "replays", "%s-%s.json" % (prop_id, h))
    with open(p, "w") as f:
        json.dump(case, f, indent=1, sort_keys=True)
    return p


def regression_cases(prop_id):
    d = os.path.join(VERIF, "regress", prop_id)
    if not os.path.isdir(d):
        return []
    out = []
    for n in sorted(os.listdir(d)):
        if n.endswith(".json"):
            with open(os.path.join(d, n)) as f:
                out.append((n, json.load(f)))
    return out


def main(prop, argv):
    tier = os.environ.get("VERIF_TIER", "quick")
    replay = None
    workers = int(os.environ.get("VERIF_WORKERS", str(min(NCPU, 16))))
    args = list(argv)
    while args:
        a = args.pop(0)
        if a in ("quick", "thorough"):
            tier = a
        elif a == "--replay":
            replay = args.pop(0)
        elif a == "--workers":
            workers = int(args.pop(0))
        elif a == "--cases":
            os.environ["VERIF_CASES"] = args.pop(0)
    seed = int(os.environ.get("VERIF_SEED", "0") or 0)
    t0 = time.time()
    ensure_built(prop.FLAVOURS, getattr(prop, "TARGETS", None))

    if replay:
        with open(replay) as f:
            case = json.load(f)
        ctx = Ctx("replay")
        try:
            out = prop.run_case(case, ctx, verbose=True) if getattr(prop, "VERBOSE_REPLAY", False) else prop.run_case(case, ctx)
        finally:
            ctx.cleanup()
        if out.violation and not out.known:
            print("replay: VIOLATED: %s" % out.violation)
            print("VIOLATION property=%s replay=%s" % (prop.ID, replay))
            return 1
        print("replay: property held on this case" + (" (known finding %s)" % out.known if out.known else ""))
        return 0

    n_total = int(os.environ.get("VERIF_CASES", "0") or 0) or prop.budget(tier)
    workers = max(1, min(workers, n_total))
    per = (n_total + workers - 1) // workers
    mp = multiprocessing.get_context("fork")
    q = mp.Queue()
    procs = [mp.Process(target=_worker, args=(prop, tier, seed, i, per, q)) for i in range(workers)]
    for p in procs:
        p.start()
    results = []
    for _ in procs:
        results.append(q.get())
    for p in procs:
        p.join()

    evaluations = sum(r["evaluations"] for r in results)
    nontrivial = set()
    classes = {}
    samples = []
    known_hits = {}
    excluded = {}
    metrics = {}
    failures = []
    errors = []
    for r in results:
        nontrivial.update(r["nontrivial"])
        for k, v in r["classes"].items():
            classes[k] = classes.get(k, 0) + v
        for k, v in r["known_hits"].items():
            known_hits[k] = known_hits.get(k, 0) + v
        for k, v in r["excluded"].items():
            excluded[k] = excluded.get(k, 0) + v
        for k, v in r.get("metrics", {}).items():
            metrics[k] = metrics.get(k, 0) + v
        samples.extend(r["samples"])
        if r["failure"] and r["failure"].get("case") is not None:
            failures.append(r["failure"])
        if r["error"]:
            errors.append(r["error"])

    # committed regression scripts (shrunk failures of earlier defects / mutants)
    ctx = Ctx("main")
    regress_n = 0
    for name, case in regression_cases(prop.ID):
        out = prop.run_case(case, ctx)
        regress_n += 1
        evaluations += 1
        if out.violation and not out.known:
            failures.append({"case": case, "msg": "regression %s: %s" % (name, out.violation)})

    # known-finding probes
    known_lines = []
    probe_unreproduced = []
    if hasattr(prop, "probes"):
        for fid, reproduced, text in prop.probes(ctx):
            if reproduced:
                known_lines.append("KNOWN-FINDING: property=%s %s" % (prop.ID, text))
            else:
                probe_unreproduced.append(fid)

    # confirm each failure by replaying it outside the library
    violations = []
    seen = set()
    for fl in sorted(failures, key=lambda f: len(json.dumps(f["case"]))):
        h = case_hash(fl["case"])
        if h in seen:
            continue
        seen.add(h)
        confirmed = 0
        for _ in range(3):
            out = prop.run_case(fl["case"], ctx)
            if out.violation and not out.known:
                confirmed += 1
        if confirmed == 3 or (confirmed > 0 and getattr(prop, "TIMING", False)):
            path = save_replay(prop.ID, fl["case"])
            violations.append((path, fl["msg"]))
        else:
            sys.stderr.write("inconclusive (replayed %d/3): %s\n" % (confirmed, fl["msg"]))
        if len(violations) >= 3:
            break
    ctx.cleanup()

    wall = time.time() - t0
    coverage = {
        "evaluations": evaluations,
        "distinct_nontrivial": len(nontrivial),
        "rule": prop.RULE,
        "samples": samples[:4],
        "classes": classes,
        "workers": workers,
        "regression_cases_replayed": regress_n,
        "known_finding_hits": known_hits,
        "excluded_by_construction": excluded,
        "metrics": metrics,
        "nontrivial_fraction": round(len(nontrivial) / max(1, evaluations), 4),
    }
    if hasattr(prop, "extra_coverage"):
        coverage.update(prop.extra_coverage())
    write_evidence(prop, tier, seed, coverage, wall, len(violations))

    for line in known_lines:
        print(line)
    print("%s %s: %d cases, %d distinct non-trivial, %.1fs, classes=%s" % (
        prop.ID, tier, evaluations, len(nontrivial), wall,
        json.dumps(dict(sorted(classes.items())))))
    if errors:
        sys.stderr.write("HARNESS ERROR in %s:\n%s\n" % (prop.ID, errors[0]))
        return 2
    if violations:
        for path, msg in violations:
            print("violation detail: %s" % msg[:2000])
            print("VIOLATION property=%s replay=%s" % (prop.ID, path))
        return 1
    # vacuity guard
    if evaluations >= 50 and len(nontrivial) < max(2, 0.05 * evaluations) and not getattr(prop, "LOW_NT_OK", False):
        sys.stderr.write("HARNESS ERROR: non-trivial fraction too low (%d/%d)\n" % (len(nontrivial), evaluations))
        return 2
    return 0
