"""Persistent valtool server (one per worker process)."""
import os
import subprocess

from common import BIN, HarnessError

_server = {}


class Died(Exception):
    def __init__(self, msg):
        self.msg = msg


def hx(b):
    return b.hex() if b else "-"


def unhx(h):
    return b"" if h == "-" else bytes.fromhex(h)


def hexlist(items):
    if not items:
        return "~"
    return ",".join(hx(i) for i in items)


def unhexlist(s):
    if s == "~":
        return []
    return [unhx(p) for p in s.split(",")]


def _start(flavour):
    e = dict(os.environ)
    e["ASAN_OPTIONS"] = "detect_leaks=0"
    return subprocess.Popen([os.path.join(BIN[flavour], "valtool")], stdin=subprocess.PIPE, stdout=subprocess.PIPE,
                            stderr=subprocess.PIPE, env=e, bufsize=0)


def ask(line, flavour="asan"):
    key = (os.getpid(), flavour)
    p = _server.get(key)
    if p is None or p.poll() is not None:
        p = _start(flavour)
        _server[key] = p
    try:
        p.stdin.write((line + "\n").encode())
        p.stdin.flush()
        reply = p.stdout.readline()
    except BrokenPipeError:
        reply = b""
    if not reply:
        p.wait()
        err = p.stderr.read().decode("latin-1")
        _server.pop(key, None)
        raise Died("valtool died (rc=%s) on request %r: %s" % (p.returncode, line[:300], err[-1500:]))
    return reply.decode().rstrip("\n")
