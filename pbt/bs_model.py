"""Model of a BuildSystem workspace: description generator, build-file writer, the
description evaluator (expected bytes of every output without running llbuild), and
the runner around `bsx` / `llbuild` with the vtool logical clock."""
import os
import shutil
import subprocess
import time

from hypothesis import strategies as st

from common import BIN, HarnessError

VTOOL = os.path.join(BIN["rel"], "vtool")
BSX = os.path.join(BIN["rel"], "bsx")
LLBUILD = os.path.join(BIN["rel"], "llbuild")

MASK = (1 << 64) - 1


class Hasher:
    def __init__(self):
        self.h = 1469598103934665603

    def bytes(self, b):
        h = self.h
        for c in b:
            h ^= c
            h = (h * 1099511628211) & MASK
        self.h = h

    def str(self, s):
        self.bytes(s.encode() if isinstance(s, str) else s)
        self.bytes(b"\0")


# ------------------------------------------------------------------ workspace


class Workspace:
    def __init__(self, ctx, on_disk=False):
        self.dir = ctx.fresh("ws")
        if on_disk:
            # a disk file system (ext4): a directory's size does not grow with every entry as it does on
            # tmpfs, so an entry added with the directory's mtime preserved leaves the directory's stat
            # record unchanged
            base = os.environ.get("VERIF_DISK_WORK") or "/tmp"
            self.dir = os.path.join(base, "verif-disk-%d" % os.getpid(), os.path.basename(self.dir))
        os.makedirs(self.dir)
        self.clock = 0
        self.log = os.path.join(self.dir, ".vtlog")
        self.ctl = os.path.join(self.dir, ".vtctl")
        os.makedirs(self.ctl)
        self._write_clock()

    def cleanup(self):
        shutil.rmtree(self.dir, ignore_errors=True)
        parent = os.path.dirname(self.dir)
        if os.path.basename(parent).startswith("verif-disk-"):
            try:
                os.rmdir(parent)
            except OSError:
                pass

    def _write_clock(self):
        with open(os.path.join(self.dir, ".vtclock"), "w") as f:
            f.write("%d\n" % self.clock)

    def _read_clock(self):
        try:
            with open(os.path.join(self.dir, ".vtclock")) as f:
                self.clock = int(f.read().strip() or 0)
        except (OSError, ValueError):
            pass

    def tick(self):
        self._read_clock()
        self.clock += 1
        self._write_clock()
        return 1000000000 + self.clock

    def path(self, rel):
        return os.path.join(self.dir, rel)

    def stamp(self, rel, follow=True):
        t = self.tick()
        os.utime(self.path(rel), ns=(t * 10**9, t * 10**9), follow_symlinks=follow)

    def write(self, rel, data, inplace=False):
        p = self.path(rel)
        os.makedirs(os.path.dirname(p), exist_ok=True)
        if isinstance(data, str):
            data = data.encode()
        if inplace and os.path.isfile(p) and not os.path.islink(p):
            with open(p, "r+b") as f:
                f.write(data)
                f.truncate()
            # an in-place rewrite does not touch the containing directory
            self.stamp(rel)
            return
        else:
            if os.path.isdir(p) and not os.path.islink(p):
                shutil.rmtree(p)
            tmp = p + ".h-tmp"
            with open(tmp, "wb") as f:
                f.write(data)
            os.rename(tmp, p)
        self.stamp(rel)
        # the containing directory's mtime changes as well: stamp it from the same clock
        self.stamp_parents(rel)

    def stamp_parents(self, rel):
        d = os.path.dirname(rel)
        while True:
            self.stamp(d if d else ".")
            if not d:
                break
            d = os.path.dirname(d)

    def delete(self, rel):
        p = self.path(rel)
        if os.path.islink(p) or os.path.isfile(p):
            os.unlink(p)
        elif os.path.isdir(p):
            shutil.rmtree(p)
        else:
            return False
        self.stamp_parents(rel)
        return True

    def read(self, rel):
        try:
            with open(self.path(rel), "rb") as f:
                return f.read()
        except OSError:
            return None

    def set_fault(self, cmd, fault):
        p = os.path.join(self.ctl, cmd)
        if fault is None:
            if os.path.exists(p):
                os.unlink(p)
        else:
            with open(p, "w") as f:
                f.write(fault + "\n")

    def take_log(self):
        try:
            with open(self.log) as f:
                lines = f.read().splitlines()
            os.unlink(self.log)
        except OSError:
            lines = []
        return [tuple(l.split(" ", 1)) for l in lines]

    def env(self):
        e = dict(os.environ)
        e["VT_LOG"] = self.log
        e["VT_CLOCK"] = os.path.join(self.dir, ".vtclock")
        e["VT_CTL"] = self.ctl
        e["ASAN_OPTIONS"] = "detect_leaks=0"
        return e

    def build(self, target=None, node=None, jobs=None, db=True, fs="default", record=False, pretend=False,
              buildfile="build.llbuild", timeout=120, exe=None, keep_going=False):
        cmd = [exe or BSX, "--chdir", self.dir, "-f", buildfile]
        if keep_going:
            cmd += ["--keep-going"]
        cmd += ["--db", "build.db"] if db else ["--no-db"]
        cmd += ["--serial"] if not jobs else ["-j", str(jobs)]
        if fs != "default":
            cmd += ["--fs", fs]
        if pretend:
            cmd += ["--pretend-remove"]
        elif record:
            cmd += ["--record-fs"]
        if node is not None:
            cmd += ["--node", node]
        elif target:
            cmd += [target]
        try:
            p = subprocess.run(cmd, stdout=subprocess.PIPE, stderr=subprocess.PIPE, env=self.env(), timeout=timeout,
                               cwd=self.dir)
        except subprocess.TimeoutExpired:
            return BuildResult(-999, [], "", self.take_log(), timed_out=True)
        events = []
        for line in p.stdout.decode("latin-1").splitlines():
            t = line.split(" ")
            events.append(tuple(t))
        return BuildResult(p.returncode, events, p.stderr.decode("latin-1"), self.take_log())


def unhx(h):
    return "" if h == "-" else bytes.fromhex(h).decode("latin-1")


class Session:
    """ONE bsx process / ONE BuildSystemFrontend that performs several builds (bsx --interactive): the
    client workflow in which the system object is reset and reused, also after a failed or cancelled build.
    The description is loaded once, so a description edit needs a new session."""

    def __init__(self, ws, jobs=None, db=True, fs="default", buildfile="build.llbuild", keep_going=False,
                 timeout=120, pretend=False):
        import tempfile
        self.ws = ws
        self.timeout = timeout
        cmd = [BSX, "--interactive", "--chdir", ws.dir, "-f", buildfile]
        if keep_going:
            cmd += ["--keep-going"]
        if pretend:
            cmd += ["--pretend-remove"]
        cmd += ["--db", "build.db"] if db else ["--no-db"]
        cmd += ["--serial"] if not jobs else ["-j", str(jobs)]
        if fs != "default":
            cmd += ["--fs", fs]
        self.errf = tempfile.TemporaryFile()
        self.p = subprocess.Popen(cmd, stdin=subprocess.PIPE, stdout=subprocess.PIPE, stderr=self.errf,
                                  env=ws.env(), cwd=ws.dir)
        self.dead = False
        self.buf = b""

    def _stderr(self):
        self.errf.seek(0)
        return self.errf.read().decode("latin-1")

    def build(self, target=None, node=None):
        import select
        if self.dead:
            return BuildResult(-998, [], "session already dead", self.ws.take_log())
        req = ("node " + node.encode("latin-1").hex()) if node is not None else (
            "build " + (target.encode("latin-1").hex() if target else "-"))
        events, rc = [], None
        try:
            self.p.stdin.write((req + "\n").encode())
            self.p.stdin.flush()
            deadline = time.monotonic() + self.timeout
            fd = self.p.stdout.fileno()
            finished = False
            while not finished:
                # lines already buffered first (select on the descriptor knows nothing about them)
                while b"\n" in self.buf:
                    raw, self.buf = self.buf.split(b"\n", 1)
                    t = tuple(raw.decode("latin-1").split(" "))
                    if t[0] == "end":
                        finished = True
                        break
                    if t[0] == "result":
                        rc = 0 if t[1] == "1" else 1
                    events.append(t)
                if finished:
                    break
                left = deadline - time.monotonic()
                if left <= 0 or not select.select([fd], [], [], left)[0]:
                    self.close(kill=True)
                    return BuildResult(-999, events, self._stderr(), self.ws.take_log(), timed_out=True)
                chunk = os.read(fd, 65536)
                if not chunk:
                    rc = None                     # the process died before "end"
                    break
                self.buf += chunk
        except BrokenPipeError:
            pass
        if rc is None:
            self.dead = True
            self.p.wait()
            rc = self.p.returncode if self.p.returncode not in (0, 1) else -997
        return BuildResult(rc, events, self._stderr(), self.ws.take_log())

    def close(self, kill=False):
        if self.p.poll() is None:
            try:
                if kill:
                    self.p.kill()
                else:
                    self.p.stdin.write(b"quit\n")
                    self.p.stdin.flush()
                    self.p.stdin.close()
            except (BrokenPipeError, OSError):
                pass
            try:
                self.p.wait(timeout=30)
            except subprocess.TimeoutExpired:
                self.p.kill()
                self.p.wait()
        self.dead = True
        try:
            self.p.stdout.close()
        except OSError:
            pass


class BuildResult:
    def __init__(self, rc, events, stderr, log, timed_out=False):
        self.rc = rc
        self.events = events
        self.stderr = stderr
        self.log = log
        self.timed_out = timed_out

    @property
    def ok(self):
        return self.rc == 0

    def started(self):
        """commands the delegate reported as started (names)"""
        return [unhx(e[1]) for e in self.events if e[0] == "started"]

    def ran(self):
        """vtool invocations that logged 'start'"""
        return [c for c, what in self.log if what == "start"]

    def completed(self):
        return [c for c, what in self.log if what == "done"]

    def errors(self):
        return [(unhx(e[1]), unhx(e[2]) if len(e) > 2 else "") for e in self.events if e[0] == "error"]

    def crashed(self):
        return self.rc < 0 or self.rc > 1 or "AddressSanitizer" in self.stderr or "Assertion" in self.stderr


# ------------------------------------------------------------------ description


def yq(s):
    return '"' + s.replace("\\", "\\\\").replace('"', '\\"') + '"'


def command_args(c):
    a = [VTOOL, c["name"], "--salt", c.get("salt", "")]
    for i in c.get("inputs", []):
        if not is_virtual(i):
            a += ["--in", i.rstrip("/") if i.endswith("/") else i]
    for o in c.get("outputs", []):
        if not is_virtual(o):
            a += ["--out", o]
    if c.get("deps"):
        a += ["--deps", c["name"] + ".d", "--style", "depinfo" if c["deps"] == "dependency-info" else "makefile"]
    if c.get("restat"):
        a += ["--restat"]
    if c.get("rsp") is not None:
        a += ["--rsp", c["rsp_file"]]
    return a


def is_virtual(n):
    return n.startswith("<") and n.endswith(">")


def write_description(ws, desc, filename="build.llbuild"):
    L = ["client:", "  name: basic", "  version: 0"]
    if desc.get("file_system"):
        L.append("  file-system: %s" % desc["file_system"])
    L.append("targets:")
    for t, nodes in desc["targets"].items():
        L.append("  %s: [%s]" % (yq(t), ", ".join(yq(n) for n in nodes)))
    L.append("default: %s" % yq(desc["default"]))
    if desc.get("nodes"):
        L.append("nodes:")
        for n, attrs in desc["nodes"].items():
            L.append("  %s:" % yq(n))
            for k, v in attrs.items():
                if isinstance(v, list):
                    L.append("    %s: [%s]" % (k, ", ".join(yq(x) for x in v)))
                else:
                    L.append("    %s: %s" % (k, yq(v) if isinstance(v, str) else str(v).lower()))
    L.append("commands:")
    for c in desc["commands"]:
        L.append("  %s:" % yq(c["name"]))
        L.append("    tool: %s" % c["tool"])
        if c.get("description") is not None:
            L.append("    description: %s" % yq(c["description"]))
        if "inputs" in c:
            L.append("    inputs: [%s]" % ", ".join(yq(n) for n in c["inputs"]))
        if "outputs" in c:
            L.append("    outputs: [%s]" % ", ".join(yq(n) for n in c["outputs"]))
        if c["tool"] == "shell":
            args = c.get("args") or command_args(c)
            L.append("    args: [%s]" % ", ".join(yq(a) for a in args))
            if c.get("deps"):
                L.append("    deps: [%s]" % yq(c["name"] + ".d"))
                L.append("    deps-style: %s" % c["deps"])
            if c.get("env") is not None:
                L.append("    env:")
                for k, v in c["env"].items():
                    L.append("      %s: %s" % (yq(k), yq(v)))
            for flag in ("allow-missing-inputs", "allow-modified-outputs", "always-out-of-date", "inherit-env",
                         "can-safely-interrupt", "control-enabled"):
                if flag in c:
                    L.append("    %s: %s" % (flag, "true" if c[flag] else "false"))
            if c.get("signature") is not None:
                L.append("    signature: %s" % yq(c["signature"]))
            if c.get("working-directory") is not None:
                L.append("    working-directory: %s" % yq(c["working-directory"]))
        elif c["tool"] == "symlink":
            L.append("    contents: %s" % yq(c["contents"]))
        elif c["tool"] == "stale-file-removal":
            L.append("    expectedOutputs: [%s]" % ", ".join(yq(n) for n in c["expected"]))
            if c.get("roots") is not None:
                L.append("    roots: [%s]" % ", ".join(yq(n) for n in c["roots"]))
    text = "\n".join(L) + "\n"
    with open(ws.path(filename), "w") as f:
        f.write(text)
    return text


def producers(desc):
    out = {}
    for c in desc["commands"]:
        for o in c.get("outputs", []):
            out[o] = c
    return out


def needed_commands(desc, roots):
    """Commands in the transitive producer closure of the given nodes, in dependency order."""
    prod = producers(desc)
    order = []
    seen = set()

    def visit(node):
        c = prod.get(node)
        if c is None or c["name"] in seen:
            return
        seen.add(c["name"])
        for i in c.get("inputs", []) + c.get("order_only", []):
            visit(i)
        order.append(c)
    for r in roots:
        visit(r)
    return order


# ------------------------------------------------------------------ evaluator


class Evaluator:
    """Expected bytes of every produced file for the current description and the current
    contents of the files no command produces."""

    def __init__(self, ws, desc):
        self.ws = ws
        self.desc = desc
        self.prod = producers(desc)
        self.virt = {}       # rel path -> bytes (files) for produced outputs
        self.links = {}      # rel path -> target for symlink tool outputs
        self.dirs = set()    # dirs created by mkdir tool
        self.missing_inputs = []
        self.done = set()

    def _source(self, rel):
        return self.ws.read(rel)

    def hash_path(self, h, rel, label, scan, discovered):
        h.str(label)
        rel = rel.rstrip("/") if rel != "/" else rel
        if rel in self.links:
            h.bytes(b"L")
            h.str(self.links[rel])
            return True
        if rel in self.virt:
            data = self.virt[rel]
            h.bytes(b"F")
            h.bytes(data)
            h.bytes(b"\0")
            if scan:
                for line in data.split(b"\n"):
                    if line.startswith(b"#include "):
                        discovered.append(line[9:].decode("latin-1"))
            return True
        p = self.ws.path(rel)
        is_virtual_dir = rel in self.dirs or any(k.startswith(rel + "/") for k in list(self.virt) + list(self.links) + list(self.dirs))
        if os.path.islink(p):
            h.bytes(b"L")
            h.str(os.readlink(p))
            return True
        if os.path.isdir(p) or is_virtual_dir:
            names = set()
            if os.path.isdir(p):
                names |= set(os.listdir(p))
            pre = rel + "/"
            for k in list(self.virt) + list(self.links) + list(self.dirs):
                if k.startswith(pre):
                    names.add(k[len(pre):].split("/")[0])
            h.bytes(b"D")
            for n in sorted(names, key=lambda s: s.encode("latin-1")):
                self.hash_path(h, pre + n, n, False, discovered)
            h.bytes(b"d")
            return True
        if os.path.isfile(p):
            data = self._source(rel)
            h.bytes(b"F")
            h.bytes(data)
            h.bytes(b"\0")
            if scan:
                for line in data.split(b"\n"):
                    if line.startswith(b"#include "):
                        discovered.append(line[9:].decode("latin-1"))
            return True
        h.bytes(b"M")
        return False

    def run_command(self, c):
        if c["name"] in self.done:
            return
        self.done.add(c["name"])
        if c["tool"] == "shell":
            h = Hasher()
            h.str(c["name"])
            h.str(c.get("salt", ""))
            discovered = []
            for i in c.get("inputs", []):
                if is_virtual(i):
                    continue
                rel = i.rstrip("/") if i.endswith("/") else i
                exists = self.hash_path(h, rel, rel, bool(c.get("deps")), discovered)
                if i not in self.prod and rel not in self.virt and rel not in self.links:
                    # llbuild stats (follows links): a dangling symlink is a missing input
                    exists = os.path.exists(self.ws.path(rel))
                if not exists and i not in self.prod and not c.get("allow-missing-inputs"):
                    self.missing_inputs.append((c["name"], i))
            disc = sorted(set(discovered), key=lambda s: s.encode("latin-1"))
            h.bytes(b"I")
            for d in disc:
                self.hash_path(h, d, d, False, [])
            if c.get("rsp") is not None:
                # the command reads a response file with this content
                h.bytes(b"R")
                h.str(c["rsp"])
            idx = 0
            for o in c.get("outputs", []):
                if is_virtual(o):
                    continue
                self.virt[o] = ("%016x:%d\n" % (h.h, idx)).encode()
                idx += 1
            if c.get("deps"):
                self.virt.pop(c["name"] + ".d", None)
        elif c["tool"] == "phony":
            for i in c.get("inputs", []):
                if is_virtual(i) or i in self.prod:
                    continue
                rel = i.rstrip("/") if i.endswith("/") else i
                if rel not in self.virt and rel not in self.links and not os.path.exists(self.ws.path(rel)):
                    self.missing_inputs.append((c["name"], i))
        elif c["tool"] == "mkdir":
            for o in c.get("outputs", []):
                self.dirs.add(o.rstrip("/"))
        elif c["tool"] == "symlink":
            for o in c.get("outputs", []):
                if not is_virtual(o):
                    self.links[o] = c["contents"]

    def evaluate(self, roots):
        cmds = needed_commands(self.desc, roots)
        for c in cmds:
            self.run_command(c)
        for r in roots:
            if not is_virtual(r) and r not in self.prod and not os.path.exists(self.ws.path(r.rstrip("/") or "/")):
                self.missing_inputs.append(("<root>", r))
        return cmds


def check_outputs(ws, desc, roots):
    """-> (violation or None, commands needed, evaluator). Compares disk with the evaluator for
    every output reachable from roots."""
    ev = Evaluator(ws, desc)
    cmds = ev.evaluate(roots)
    for c in cmds:
        for o in c.get("outputs", []):
            if is_virtual(o):
                continue
            if c["tool"] == "shell":
                got = ws.read(o)
                want = ev.virt.get(o)
                if got != want:
                    return ("output %s of %s holds %r, a clean build gives %r" % (o, c["name"], got, want)), cmds, ev
            elif c["tool"] == "mkdir":
                if not os.path.isdir(ws.path(o)):
                    return "directory %s of %s does not exist" % (o, c["name"]), cmds, ev
            elif c["tool"] == "symlink":
                p = ws.path(o)
                if not os.path.islink(p) or os.readlink(p) != c["contents"]:
                    return "symlink %s of %s is not a link to %r" % (o, c["name"], c["contents"]), cmds, ev
    return None, cmds, ev


# ------------------------------------------------------------------ generators

_NAMES = ["a", "b", "c", "d1/e", "d1/f", "d2/g"]


@st.composite
def description(draw, max_cmds=7, allow_dirs=False, allow_deps=True, allow_extra_tools=True, allow_amo=False, allow_mutated=False):
    nsrc = draw(st.integers(1, 4))
    sources = [draw(st.sampled_from(["src%d", "src%d", "sd/src%d", "sd/sub/src%d", "sd/a/src%d", "sd/zrc%d"])) % i for i in range(nsrc)]
    tree_ok = allow_dirs and any(s.startswith("sd/") for s in sources)
    src_text = {}
    # only these sources are ever named by '#include' lines; they are never turned into produced
    # files (docs/buildsystem.rst: discovered dependencies must already be present -- the client is
    # responsible for ordering generated ones, which a discovered edge cannot express)
    includable = sources[:max(1, (nsrc + 1) // 2)]
    for s in sources:
        body = "body-%d\n" % draw(st.integers(0, 3))
        if allow_deps and draw(st.integers(0, 2)) == 0:
            others = [o for o in includable if o != s]
            if others:
                body += "#include %s\n" % draw(st.sampled_from(others))
        src_text[s] = body
    ncmd = draw(st.integers(1, max_cmds))
    cmds = []
    avail = list(sources)      # nodes usable as inputs
    virt_nodes = []
    mutated = []
    for i in range(ncmd):
        kind = draw(st.sampled_from(["shell"] * 6 + (["phony", "mkdir", "symlink"] if allow_extra_tools else [])))
        name = "C%d" % i
        if kind == "shell":
            nin = draw(st.integers(0, min(3, len(avail))))
            ins = draw(st.permutations(avail))[:nin]
            if virt_nodes and draw(st.integers(0, 4)) == 0:
                ins = ins + [draw(st.sampled_from(virt_nodes))]
            if tree_ok and draw(st.integers(0, 3)) == 0:
                # a directory-tree input: the command reads everything beneath sd/ (nothing is produced there)
                ins = [x for x in ins if not x.startswith("sd/")] + ["sd/"]
            nout = draw(st.sampled_from([1, 1, 1, 2, 3]))
            sub = draw(st.sampled_from(["", "", "gen/"]))
            outs = ["%so%d_%d" % (sub, i, j) for j in range(nout)]
            if draw(st.integers(0, 5)) == 0:
                # a virtual output anywhere in the list (before, between or after the files)
                outs.insert(draw(st.integers(0, len(outs))), "<v%d>" % i)
                virt_nodes.append("<v%d>" % i)
            c = {"name": name, "tool": "shell", "inputs": ins, "outputs": outs, "salt": "s%d" % draw(st.integers(0, 2))}
            if allow_deps and draw(st.integers(0, 2)) == 0:
                c["deps"] = draw(st.sampled_from(["makefile", "dependency-info", "makefile-ignoring-subsequent-outputs"]))
            if allow_mutated and len(outs) >= 2 and draw(st.integers(0, 3)) == 0:
                # one of the outputs is declared `is-mutated` (only its existence counts for the command's
                # validity); the histories never tamper with it
                real = [o for o in outs if not is_virtual(o)]
                if len(real) >= 2:
                    mutated.append(draw(st.sampled_from(real)))
            if allow_amo and draw(st.integers(0, 5)) == 0:
                # outputs may be modified behind the command's back without invalidating it (the histories
                # never tamper with them); everything else about the command is as usual
                c["allow-modified-outputs"] = True
            cmds.append(c)
            avail += [o for o in outs if not is_virtual(o)]
        elif kind == "phony":
            nin = draw(st.integers(0, min(3, len(avail + virt_nodes))))
            ins = draw(st.permutations(avail + virt_nodes))[:nin]
            v = "<p%d>" % i
            cmds.append({"name": name, "tool": "phony", "inputs": ins, "outputs": [v]})
            virt_nodes.append(v)
        elif kind == "mkdir":
            d = "mk%d" % i
            cmds.append({"name": name, "tool": "mkdir", "inputs": [], "outputs": [d]})
        elif kind == "symlink":
            ln = "ln%d" % i
            cmds.append({"name": name, "tool": "symlink", "inputs": [], "outputs": [ln],
                         "contents": draw(st.sampled_from(avail))})
            avail.append(ln)
    # a virtual node that is consumed (by a command and/or a target) while NO command produces it -- a
    # description edit may give it a producer later
    orphan = None
    if allow_extra_tools and draw(st.integers(0, 4)) == 0:
        orphan = "<u0>"
        shells = [c for c in cmds if c["tool"] == "shell"]
        if shells and draw(st.booleans()):
            draw(st.sampled_from(shells))["inputs"].append(orphan)
    outs_all = [o for c in cmds for o in c["outputs"]]
    ntargets = draw(st.integers(1, 3))
    targets = {}
    for t in range(ntargets):
        k = draw(st.integers(1, min(3, len(outs_all))))
        targets["t%d" % t] = draw(st.permutations(outs_all))[:k]
    if orphan and (draw(st.booleans()) or not any(orphan in c.get("inputs", []) for c in cmds)):
        tk = draw(st.sampled_from(sorted(targets)))
        targets[tk] = targets[tk] + [orphan]
    d = {"commands": cmds, "targets": targets, "default": "t0", "sources": src_text, "includable": includable}
    if mutated:
        d["nodes"] = {o: {"is-mutated": True} for o in mutated}
    return d
