"""C10 -- a failed or cancelled command never feeds dependents and is always retried."""
import copy
import shutil

from hypothesis import strategies as st

import common
from common import Outcome
import bs_model as bm
import c08

ID = "C10"
LEVEL = "exploration"
FLAVOURS = ["rel"]
TARGETS = ["bsx", "vtool"]
RULE = ("C08-style descriptions; in one build a generated subset of the shell commands is faulted through vtool's "
        "control directory (exit 1-255, SIGSEGV/SIGABRT/SIGTERM on itself, read of a missing undeclared file, "
        "unwritable output), serial and -j4, with the front end either cancelling at the first failure (as the stock CLI does) or letting independent work continue -- in parallel builds other commands are slowed down so that the first "
        "failure cancels them in flight (cancelled commands); optionally preceded by a successful build and source "
        "edits; then the fault is lifted and the build repeated -- in a new process, or (half of the cases) on the SAME "
        "BuildSystemFrontend, which resets and reuses its system and engine after the failed / cancelled build. Oracle, faulted build: exit "
        "status != 0 whenever a faulted command ran; for every command that started, no command in its transitive "
        "producer closure failed or was cancelled in that build (started without finishing, or finished with a "
        "failure). Repaired build: every command that failed or was cancelled starts again, the build exits 0 and "
        "C08's clean-state oracle holds. Non-trivial = a faulted command that actually ran and has >= 1 transitive "
        "dependent and >= 1 independent sibling in the built closure; distinct = sha1 of the case.")
ASSUMPTIONS = ["a command counts as cancelled when vtool logged 'start' but neither 'done' nor 'fail' (killed by the "
               "cancellation signal)"]

FAULTS = ["exit 1", "exit 2", "exit 255", "signal 11", "signal 6", "signal 15", "signal 9", "signal 2", "readmissing", "unwritable"]


def budget(tier):
    return 8000 if tier == "quick" else 200000


@st.composite
def case(draw):
    desc = draw(bm.description(max_cmds=8, allow_extra_tools=True))
    # some symlink commands put their link beneath a directory of their own, so that creating the link can be
    # made to fail (a regular file where that directory should be)
    for c in desc["commands"]:
        if c["tool"] == "symlink" and draw(st.booleans()):
            old = c["outputs"][0]
            new = "lk_%s/%s" % (old, old)
            rename_node(desc, old, new)
            c["contents"] = "../" + c["contents"]
    shells = [c["name"] for c in desc["commands"] if c["tool"] == "shell"]
    if draw(st.integers(0, 3)) != 0:
        # a target that needs everything, so that faulted commands have dependents AND siblings
        outs = [o for c in desc["commands"] for o in c["outputs"]]
        desc["commands"].append({"name": "ALL", "tool": "phony", "inputs": outs, "outputs": ["<everything>"]})
        desc["targets"]["everything"] = ["<everything>"]
        target = "everything"
    else:
        target = draw(st.sampled_from(sorted(desc["targets"])))
    needed = [c["name"] for c in bm.needed_commands(desc, desc["targets"][target]) if c["tool"] == "shell"]
    pool = needed or shells
    # prefer commands that have dependents
    with_deps = [c for c in pool if any(c in closure(desc, n) for n in pool if n != c)]
    nf = draw(st.integers(1, min(2, len(pool)))) if pool else 0
    order = draw(st.permutations(pool)) if pool else []
    if with_deps and draw(st.integers(0, 3)) != 0:
        first = draw(st.sampled_from(with_deps))
        order = [first] + [c for c in order if c != first]
    faulted = {c: draw(st.sampled_from(FAULTS)) for c in order[:nf]}
    # a phony command may have a plain source among its inputs: deleting that file is a failure of the phony
    # command itself (missing input without a producer) -- the build must report it
    prod_all = bm.producers(desc)
    phony_src = [(c["name"], i) for c in bm.needed_commands(desc, desc["targets"][target]) if c["tool"] == "phony"
                 for i in c.get("inputs", []) if not bm.is_virtual(i) and i not in prod_all and i in desc["sources"]]
    if not phony_src and draw(st.integers(0, 3)) == 0:
        # give the ALL group (or any needed phony) a source input
        phs = [c for c in desc["commands"] if c["tool"] == "phony" and c["name"] in
               [x["name"] for x in bm.needed_commands(desc, desc["targets"][target])]]
        if phs and desc["sources"]:
            ph = draw(st.sampled_from(phs))
            src = draw(st.sampled_from(sorted(desc["sources"])))
            if src not in ph["inputs"] and not src.startswith("sd/"):
                ph["inputs"] = ph["inputs"] + [src]
                phony_src = [(ph["name"], src)]
    if phony_src and draw(st.booleans()):
        nm, src = draw(st.sampled_from(phony_src))
        faulted = {nm: "missing-input:" + src}
    blockable = [c["name"] for c in bm.needed_commands(desc, desc["targets"][target])
                 if c["tool"] == "symlink" and "/" in c["outputs"][0]]
    if blockable and not any(f.startswith("missing-input:") for f in faulted.values()) and draw(st.booleans()):
        faulted[draw(st.sampled_from(blockable))] = "blockdir"
    jobs = draw(st.sampled_from([None, 4, 4]))
    slow = {}
    if jobs:
        for c in pool:
            if c not in faulted and draw(st.booleans()):
                slow[c] = "sleep %d" % draw(st.sampled_from([100, 300]))
    pre = draw(st.booleans())
    edits = []
    if pre:
        srcs = list(desc["sources"])
        for _ in range(draw(st.integers(0, 2))):
            edits.append({"path": draw(st.sampled_from(srcs)), "text": "edit-%d\n" % draw(st.integers(0, 3))})
    return {"desc": desc, "target": target, "faults": faulted, "slow": slow, "jobs": jobs, "prebuild": pre,
            "edits": edits, "keep_going": draw(st.booleans()),
            # every build of the case through ONE BuildSystemFrontend (reset and reused after the failure)
            "same_process": draw(st.booleans())}


def rename_node(desc, old, new):
    for c in desc["commands"]:
        c["outputs"] = [new if o == old else o for o in c["outputs"]]
        if "inputs" in c:
            c["inputs"] = [new if i == old else i for i in c["inputs"]]
        if c.get("contents") == old:
            c["contents"] = new
    for t in desc["targets"]:
        desc["targets"][t] = [new if n == old else n for n in desc["targets"][t]]


def strategy(tier):
    return case()


def closure(desc, name):
    """names of commands in the transitive producer closure of command `name` (excluding itself)"""
    prod = bm.producers(desc)
    byname = {c["name"]: c for c in desc["commands"]}
    out = set()
    stack = list(byname[name].get("inputs", []))
    while stack:
        n = stack.pop()
        c = prod.get(n)
        if c is None or c["name"] in out:
            continue
        if c["tool"] == "phony" and bm.is_virtual(n):
            # a phony command's virtual output is an ordering gate that carries no value: llbuild
            # deliberately does not propagate failure through it (BuildSystem.cpp, PhonyCommand::
            # getResultForOutput), so nothing is "consumed" across it
            continue
        out.add(c["name"])
        stack += c.get("inputs", [])
    return out


def run_case(case, ctx, verbose=False):
    ws = bm.Workspace(ctx)
    sess = None
    try:
        desc = copy.deepcopy(case["desc"])
        for s, text in desc["sources"].items():
            ws.write(s, text)
        bm.write_description(ws, desc)
        roots = desc["targets"][case["target"]]
        ev = bm.Evaluator(ws, desc)
        needed = ev.evaluate(roots)
        if ev.missing_inputs:
            return Outcome(None, classes=["legit-missing-input"])
        cls = []
        if case.get("same_process"):
            sess = bm.Session(ws, jobs=case["jobs"], keep_going=case.get("keep_going", False))
            cls.append("same-frontend")

            def build(**kw):
                return sess.build(target=case["target"])
        else:
            def build(**kw):
                return ws.build(target=case["target"], jobs=case["jobs"], **kw)
        if case["prebuild"]:
            r0 = build()
            if not r0.ok:
                return Outcome("un-faulted first build failed: %s" % r0.stderr[-300:])
            for e in case["edits"]:
                ws.write(e["path"], e["text"])
            cls.append("after-successful-build")
        byname_all = {c["name"]: c for c in desc["commands"]}
        blocked = {}
        for c, f in list(case["faults"].items()) + list(case["slow"].items()):
            if f.startswith("missing-input:"):
                ws.delete(f.split(":", 1)[1])
                blocked[c] = None
            elif f == "blockdir":
                # a regular file where the directory of the link should be
                d = byname_all[c]["outputs"][0].split("/")[0]
                shutil.rmtree(ws.path(d), ignore_errors=True)
                ws.write(d, "in the way\n")
                blocked[c] = d
            else:
                ws.set_fault(c, f)
        r1 = build(keep_going=case.get("keep_going", False))
        if r1.timed_out:
            return Outcome("faulted build hung")
        if r1.crashed():
            return Outcome("faulted build: front end crashed rc=%s: %s" % (r1.rc, r1.stderr[-500:]))
        started = [c for c, w in r1.log if w == "start"]
        done = {c for c, w in r1.log if w == "done"}
        failed = {c for c, w in r1.log if w == "fail"}
        cancelled = {c for c in started if c not in done and c not in failed}
        # commands that are not run through vtool (symlink): the delegate's events tell
        ev_started = {bm.unhx(e[1]) for e in r1.events if e[0] == "started"}
        ev_failed = {bm.unhx(e[1]) for e in r1.events if e[0] == "finished" and len(e) > 2 and e[2] == "1"}
        sym_failed = {c for c in blocked if c in ev_failed}
        missing_phony = [c for c, f in case["faults"].items() if f.startswith("missing-input:")]
        if missing_phony:
            if r1.ok:
                return Outcome("phony command %s has a missing input without a producer (%s was deleted) but the build "
                               "reported success" % (missing_phony[0], case["faults"][missing_phony[0]].split(":", 1)[1]),
                               classes=cls)
            cls.append("fault:missing-input-of-phony")
            # repair and converge
            for c in missing_phony:
                src = case["faults"][c].split(":", 1)[1]
                ws.write(src, desc["sources"][src])
            r2 = build()
            if not r2.ok:
                return Outcome("build after restoring the missing input failed: rc=%s %s" % (r2.rc, r2.stderr[-300:]), classes=cls)
            v, _, _ = bm.check_outputs(ws, desc, roots)
            if v:
                return Outcome("after restoring the missing input: " + v, classes=cls)
            return Outcome(None, nontrivial=True, classes=sorted(set(cls)))
        for c in blocked:
            if blocked[c] is None:
                continue
            if c in ev_started and c not in ev_failed:
                return Outcome("symlink command %s reported success although its link cannot be created (a regular file "
                               "is where its directory should be)" % c, classes=cls)
        bad = failed | cancelled | sym_failed
        faulted_ran = [c for c in case["faults"] if c in started or c in sym_failed]
        if faulted_ran and r1.ok:
            return Outcome("commands %s failed but the build reported success" % faulted_ran, classes=cls)
        if not faulted_ran and not r1.ok:
            return Outcome("no faulted command ran but the build failed: %s" % r1.stderr[-300:], classes=cls)
        # order matters: a command may only start after everything upstream completed successfully
        pos = {}
        for i, (c, w) in enumerate(r1.log):
            pos.setdefault((c, w), i)
        for x in started:
            up = closure(desc, x)
            culprits = up & bad
            if culprits:
                return Outcome("command %s started although upstream command(s) %s failed or were cancelled in the "
                               "same build (log: %s)" % (x, sorted(culprits), r1.log), classes=cls)
        # repaired build
        for c in list(case["faults"]) + list(case["slow"]):
            if c in blocked:
                ws.delete(blocked[c])
            else:
                ws.set_fault(c, None)
        r2 = build()
        if not r2.ok:
            return Outcome("build after lifting the fault failed: rc=%s %s" % (r2.rc, r2.stderr[-400:]), classes=cls)
        started2 = {c for c, w in r2.log if w == "start"} | {bm.unhx(e[1]) for e in r2.events if e[0] == "started"}
        missing = [c for c in bad if c not in started2]
        if missing:
            return Outcome("commands %s failed or were cancelled but were not re-attempted by the next build "
                           "(started: %s)" % (sorted(missing), sorted(started2)), classes=cls)
        v, _, _ = bm.check_outputs(ws, desc, roots)
        if v:
            return Outcome("after repair: " + v, classes=cls)
        # an immediate third build does nothing
        r3 = build()
        if r3.ran():
            return Outcome("build after the repaired build re-ran %s" % r3.ran(), classes=cls)
        needed_names = [c["name"] for c in needed if c["tool"] == "shell"]
        nt = False
        for f in faulted_ran:
            dependents = [n for n in needed_names if f in closure(desc, n)]
            siblings = [n for n in needed_names if n != f and f not in closure(desc, n) and n not in closure(desc, f)]
            if dependents and siblings:
                nt = True
        if cancelled:
            cls.append("cancelled-in-flight")
        if case["jobs"]:
            cls.append("parallel")
        if case.get("keep_going"):
            cls.append("keep-going")
        if any(len(c["outputs"]) > 1 for c in desc["commands"] if c["name"] in faulted_ran):
            cls.append("multi-output-faulted")
        for f in faulted_ran:
            cls.append("fault:" + case["faults"][f].split()[0])
        return Outcome(None, nontrivial=nt, classes=sorted(set(cls)))
    finally:
        if sess is not None:
            sess.close()
        ws.cleanup()
