"""C06 -- outcome independent of completion order and threads; task protocol holds."""
import os

from hypothesis import strategies as st

import common
from common import Outcome
import engine_model as em
import c01

ID = "C06"
LEVEL = "exploration"
FLAVOURS = ["rel", "tsan"]
TARGETS = ["enginesim"]
TIMING = True
RULE = ("Hypothesis generates DAG programs (<= 8 derived rules for exhaustive schedules, <= 30 for threads) and "
        "histories of 1-4 builds. Per case: (1) one run under the generated schedule (idle/mixed, several "
        "completions per idle point allowed); (2) one all-synchronous run; (3) for every build of the history, "
        "EVERY completion order at every engine idle point is enumerated by DFS over the choice points "
        "(capped per build; cap hits counted) using the guarded BeforeWait hook; (4) one run with completions "
        "delivered by racing threads under ThreadSanitizer (optionally with a racing cancelBuild). Oracles: a "
        "per-task protocol monitor over every trace (start first; prior value iff a completed execution with "
        "equal signature exists, with that value, immediately after start; every requested non-must-follow "
        "input provided exactly once under its id and key, after the input completed; inputsAvailable exactly "
        "once after all requested and must-follow keys completed; nothing after complete), and equality across "
        "all schedules of per-build returned value, executed set and up-to-date set; no TSan report; "
        "termination. Non-trivial = some idle point had >= 3 tasks pending and >= 2 distinct schedules were "
        "explored for that build; distinct = sha1 of the case.")
ASSUMPTIONS = [
    "deterministic modes own the completion order, not preemption inside engine critical sections",
    "threads mode is randomised timing under TSan: a window a few instructions wide may be missed",
]

_counters = {"schedules": 0, "cap_hits": 0, "tsan_runs": 0}


def budget(tier):
    return 4000 if tier == "quick" else 80000


def sched_cap(tier):
    return 120 if tier == "quick" else 3000


_TIER = {"v": "quick"}


@st.composite
def small_case(draw):
    c = draw(em.history_case(max_ops=6, allow_tamper=True, allow_redef=True,
                             program_kw={"max_leaves": 3, "max_derived": 7}))
    nb = 0
    ops = []
    for op in c["ops"]:
        if op["op"] == "build":
            nb += 1
            if nb > 4:
                continue
        ops.append(op)
    c["ops"] = ops
    c["kind"] = "enum"
    return c


@st.composite
def big_case(draw):
    c = draw(em.history_case(max_ops=5, allow_redef=False,
                             program_kw={"max_leaves": 5, "max_derived": 30, "max_ins": 6}))
    c["kind"] = "threads"
    c["nthreads"] = draw(st.sampled_from([2, 4, 8, 16]))
    c["race_cancel"] = draw(st.sampled_from([None, None, None, 0, 20, 100, 400]))
    return c


@st.composite
def order_only_motif(draw):
    """A rule with a recorded must-follow (order-only) key that is recomputed with a CHANGED value in
    a later build while nothing the rule consumes changes: whether the rule's scan reaches that key
    before or after it completed depends on the completion order."""
    keys = draw(em.key_pool(6))
    l1, l2, k, x, r, top = keys
    pre = lambda: draw(em._PREFIX)
    rules = [em.leaf_rule(l1, pre()), em.leaf_rule(l2, pre())]
    mk = lambda key, ins: {"key": key, "leaf": False, "prefix": pre(), "ver": 0, "mod": draw(st.sampled_from([3, 251])),
                           "salt": draw(st.integers(0, 3)), "force": draw(st.integers(0, 5)) == 0, "art": False,
                           "ins": [{"key": kk, "mode": m, "w": draw(st.integers(1, 3)), "src": -1, "mod": 1, "rem": 0}
                                   for kk, m in ins], "discs": []}
    rules.append(mk(k, [(l1, "r")]))
    rules.append(mk(x, [(l2, "r")]))
    r_ins = draw(st.permutations([(x, "r"), (k, "m")]))
    rules.append(mk(r, list(r_ins)))
    top_ins = draw(st.permutations([(k, draw(st.sampled_from(["r", "m"]))), (x, "r"), (r, "r")]))
    rules.append(mk(top, list(top_ins)))
    # Top and X carry an artifact: tampering with it makes the rule re-run (X to an identical value)
    # so that in the second build Top's task requests K, X and R at once while K and X are computing
    for rr in rules:
        if rr["key"] in (top, x):
            rr["art"] = True
            rr["force"] = False
    ops = [{"op": "build", "key": top, "mode": "idle", "choices": draw(em._CHOICES)}]
    for _ in range(draw(st.integers(1, 3))):
        ops.append({"op": "set", "key": l1, "v": draw(st.integers(0, 5))})
        if draw(st.integers(0, 3)) != 0:
            ops.append({"op": "tamper", "key": top, "v": "aa"})
        if draw(st.integers(0, 3)) != 0:
            ops.append({"op": "tamper", "key": x, "v": "aa"})
        if draw(st.integers(0, 3)) == 0:
            ops.append({"op": "set", "key": l2, "v": draw(st.integers(0, 5))})
        ops.append({"op": "build", "key": draw(st.sampled_from([top, top, r])), "mode": draw(st.sampled_from(["idle", "mixed"])),
                    "choices": draw(em._CHOICES)})
    return {"db": draw(st.booleans()), "front": "cxx", "rules": rules, "init": {l1: 0, l2: 0}, "ops": ops[:14], "kind": "enum"}


def strategy(tier):
    _TIER["v"] = tier
    return st.one_of(small_case(), small_case(), small_case(), order_only_motif(), big_case(), big_case())


class Known:
    """What an observer knows about completed executions (for the prior-value rule)."""

    def __init__(self):
        self.done = {}   # key -> (sig, value)


def protocol_monitor(case, trace, threads=False):
    """Checks every task's view in every build of the trace."""
    known = Known()
    builds = trace["builds"]
    bi = 0
    for i, op, w in em.replay_world(case):
        if op["op"] in ("restart", "redef", "undef") and not case.get("db"):
            known = Known()
        if op["op"] != "build":
            continue
        if bi >= len(builds):
            return "trace has fewer builds than the script"
        b = builds[bi]
        bi += 1
        cancelled = any(e[0] == "cancel-issued" for e in b["events"])
        tasks = {}
        done_status = set()
        order = 0
        last_start = None
        for ev in b["events"]:
            order += 1
            tag = ev[0]
            if tag == "status" and ev[2] in ("1", "2"):
                done_status.add(ev[1])
                if ev[2] == "2":
                    t = [t for t in tasks.values() if t["key"] == ev[1]]
                    if t and t[0]["complete"] is not None:
                        known.done[ev[1]] = (w.signature(ev[1]), t[0]["complete"])
                continue
            if tag == "create":
                tasks[ev[2]] = {"key": ev[1], "started": False, "prior": None, "requests": [], "provided": {},
                                "avail": 0, "complete": None, "after_start_ok": True, "destroyed": False}
                continue
            if tag in ("start", "prior", "provide", "avail", "request", "disc", "complete", "destroy"):
                t = tasks.get(ev[1])
                if t is None:
                    return "build %d: event %s for unknown task" % (b["n"], ev)
                if t["destroyed"]:
                    return "build %d: task %s (%s) saw %s after it was destroyed" % (b["n"], ev[1], t["key"], tag)
                if t["complete"] is not None and tag not in ("destroy", "complete") and not threads:
                    return "build %d: task %s (%s) saw %s after it completed" % (b["n"], ev[1], t["key"], tag)
                if tag == "start":
                    if t["started"]:
                        return "build %d: task for %s started twice" % (b["n"], t["key"])
                    t["started"] = True
                    last_start = ev[1]
                    t["only_requests_since_start"] = True
                    continue
                if not t["started"]:
                    return "build %d: task for %s saw %s before start" % (b["n"], t["key"], tag)
                if tag == "prior":
                    if not t.get("only_requests_since_start"):
                        return "build %d: prior value for %s not delivered immediately after start" % (b["n"], t["key"])
                    if t["prior"] is not None:
                        return "build %d: prior value for %s delivered twice" % (b["n"], t["key"])
                    t["prior"] = ev[2]
                    kd = known.done.get(t["key"])
                    if kd is None or kd[0] != w.signature(t["key"]):
                        return ("build %d: task %s was given a prior value %s but no completed execution with an "
                                "equal signature exists" % (b["n"], t["key"], ev[2]))
                    if kd[1] != ev[2]:
                        return "build %d: task %s prior value %s != last completed value %s" % (
                            b["n"], t["key"], ev[2], kd[1])
                    t["only_requests_since_start"] = False
                    continue
                if tag == "request":
                    if t["avail"]:
                        return "harness error: request after inputsAvailable"
                    t["requests"].append((ev[2], ev[3], int(ev[4])))
                    continue
                t["only_requests_since_start"] = False
                if tag == "provide":
                    iid = int(ev[2])
                    match = [r for r in t["requests"] if r[2] == iid and r[1] != "m"]
                    if not match:
                        return "build %d: task %s provided input id %d it never requested" % (b["n"], t["key"], iid)
                    if match[0][0] != ev[3]:
                        return "build %d: task %s input id %d delivered with key %s, requested %s" % (
                            b["n"], t["key"], iid, ev[3], match[0][0])
                    if iid in t["provided"]:
                        return "build %d: task %s input %s provided twice" % (b["n"], t["key"], ev[3])
                    if t["avail"]:
                        return "build %d: task %s input %s provided after inputsAvailable" % (b["n"], t["key"], ev[3])
                    if ev[3] not in done_status:
                        return "build %d: task %s was provided %s before that key completed in this build" % (
                            b["n"], t["key"], ev[3])
                    t["provided"][iid] = ev[4]
                elif tag == "avail":
                    t["avail"] += 1
                    if t["avail"] > 1:
                        return "build %d: inputsAvailable delivered twice to %s" % (b["n"], t["key"])
                    for k, mode, iid in t["requests"]:
                        if mode != "m" and iid not in t["provided"]:
                            return "build %d: inputsAvailable for %s before input %s was provided" % (
                                b["n"], t["key"], k)
                        if k not in done_status:
                            return "build %d: inputsAvailable for %s before %s key %s completed" % (
                                b["n"], t["key"], "must-follow" if mode == "m" else "requested", k)
                elif tag == "complete":
                    if not t["avail"]:
                        return "harness error: complete before inputsAvailable"
                    t["complete"] = ev[2]
                elif tag == "destroy":
                    t["destroyed"] = True
        if not cancelled and b["end"] is not None:
            for tid, t in tasks.items():
                if not t["destroyed"]:
                    return "build %d: task for %s never destroyed" % (b["n"], t["key"])
                if t["avail"] != 1:
                    return "build %d: task for %s did not get inputsAvailable exactly once" % (b["n"], t["key"])
    return None


def must_prior_monitor(case, trace):
    """Second pass: prior value MUST be delivered when the rule has a completed execution with an
    equal signature (no cancelled build in these histories)."""
    done = {}
    builds = trace["builds"]
    bi = 0
    for i, op, w in em.replay_world(case):
        if op["op"] in ("restart", "redef", "undef") and not case.get("db"):
            done = {}
        if op["op"] != "build":
            continue
        b = builds[bi]
        bi += 1
        if any(e[0] == "cancel-issued" for e in b["events"]):
            return None   # racing-cancel histories: the engine may have forgotten prior values
        tid2key = {}
        got_prior = set()
        completes = {}
        for ev in b["events"]:
            if ev[0] == "create":
                tid2key[ev[2]] = ev[1]
                kd = done.get(ev[1])
                if kd is not None and kd[0] == w.signature(ev[1]):
                    tid2key[ev[2] + "/must"] = True
            elif ev[0] == "prior":
                got_prior.add(ev[1])
            elif ev[0] == "avail":
                if tid2key.get(ev[1] + "/must") and ev[1] not in got_prior:
                    return "build %d: task for %s has a completed execution with equal signature but got no prior value" % (
                        b["n"], tid2key[ev[1]])
            elif ev[0] == "complete":
                completes[tid2key[ev[1]]] = ev[2]
            elif ev[0] == "status" and ev[2] == "2" and ev[1] in completes:
                done[ev[1]] = (w.signature(ev[1]), completes[ev[1]])
    return None


def per_build_summary(trace):
    out = []
    for b in trace["builds"]:
        s = em.summarize_build(b)
        out.append((s["result"], tuple(sorted(s["created"])), tuple(sorted(set(s["uptodate"])))))
    return out


def with_modes(case, mode, choices_for=None):
    c = dict(case)
    ops = []
    k = 0
    for op in case["ops"]:
        if op["op"] == "build":
            op = dict(op)
            op["mode"] = mode
            op["choices"] = []
            if choices_for is not None and k == choices_for[0]:
                op["mode"] = "idle"
                op["choices"] = choices_for[1]
            k += 1
        ops.append(op)
    c["ops"] = ops
    return c


def run(case, ctx, flavour="rel"):
    db = ctx.fresh("db")
    res = em.run_enginesim(em.script_for(case, db), flavour=flavour, timeout=120)
    if case.get("db"):
        for suf in ("", "-journal"):
            try:
                os.unlink(db + suf)
            except OSError:
                pass
    return res


def judge(case, res, what, threads=False):
    if res.timed_out:
        return "%s: enginesim hung (watchdog 120 s)" % what
    if "ThreadSanitizer" in res.stderr:
        return "%s: ThreadSanitizer report:\n%s" % (what, res.stderr[:1500])
    if res.rc == 3:
        return "%s: engine stalled (waits with nothing running)" % what
    if res.rc != 0:
        return "%s: enginesim exited %d: %s" % (what, res.rc, (res.stderr or res.raw)[-500:])
    v = protocol_monitor(case, res.events, threads=threads)
    if v:
        return "%s: protocol: %s" % (what, v)
    v = must_prior_monitor(case, res.events)
    if v:
        return "%s: protocol: %s" % (what, v)
    v, _ = c01.check_values(case, res.events)
    if v:
        return "%s: value: %s" % (what, v)
    return None


def run_case(case, ctx, verbose=False):
    classes = [case["kind"]]
    if case["kind"] == "threads":
        c = with_modes(case, "threads")
        ops = []
        for op in c["ops"]:
            if op["op"] == "build":
                op["nthreads"] = case["nthreads"]
                if case.get("race_cancel") is not None:
                    op["cancel"] = "thread:%d" % case["race_cancel"]
            ops.append(op)
            if op["op"] == "build" and case.get("race_cancel") is not None:
                ops.append({"op": "reset"})
        c["ops"] = ops
        if case.get("race_cancel") is not None:
            classes.append("racing-cancel")
            # after a cancelled build the engine is restarted (C05 covers same-engine reuse)
            ops2 = []
            for op in c["ops"]:
                ops2.append(op)
                if op["op"] == "reset":
                    ops2.append({"op": "restart"})
            c["ops"] = ops2
        res = run(c, ctx, "tsan")
        _counters["tsan_runs"] += 1
        v = judge(c, res, "threads", threads=True)
        nt = len(case["rules"]) >= 8
        return Outcome(v, nontrivial=nt, classes=classes, detail={"tsan_runs": 1})

    # (1) generated schedule
    res = run(case, ctx)
    v = judge(case, res, "generated schedule")
    if v:
        return Outcome(v, classes=classes)
    # (2) synchronous reference run
    sync_case = with_modes(case, "sync")
    rs = run(sync_case, ctx)
    v = judge(sync_case, rs, "sync")
    if v:
        return Outcome(v, classes=classes)
    ref = per_build_summary(rs.events)
    got = per_build_summary(res.events)
    if got != ref:
        return Outcome("generated schedule differs from synchronous run: %s vs %s" % (got, ref), classes=classes)
    # (3) exhaustive schedules per build
    nbuilds = sum(1 for op in case["ops"] if op["op"] == "build")
    cap = sched_cap(_TIER["v"])
    nontrivial = False
    total = 0
    for k in range(nbuilds):
        stack = [[]]
        explored = 0
        maxpending = 0
        while stack:
            if explored >= cap:
                _counters["cap_hits"] += 1
                classes.append("cap-hit")
                break
            prefix = stack.pop()
            c = with_modes(case, "sync", choices_for=(k, prefix))
            r = run(c, ctx)
            explored += 1
            v = judge(c, r, "build %d schedule %s" % (k + 1, prefix))
            if v:
                return Outcome(v, classes=classes)
            s = per_build_summary(r.events)
            if s != ref:
                return Outcome("build %d under completion order %s gives %s, synchronous run gives %s" % (
                    k + 1, prefix, s, ref), classes=classes)
            ns = [int(e[2].split("=")[1]) for e in r.events["builds"][k]["events"] if e[0] == "choice"]
            if ns:
                maxpending = max(maxpending, max(ns))
            for i in range(len(prefix), len(ns)):
                for alt in range(1, ns[i]):
                    stack.append(prefix + [0] * (i - len(prefix)) + [alt])
        total += explored
        if maxpending >= 3 and explored >= 2:
            nontrivial = True
    _counters["schedules"] += total
    if total > nbuilds:
        classes.append("multi-schedule")
    # (4) one threaded run under TSan
    c = with_modes(case, "threads")
    r = run(c, ctx, "tsan")
    _counters["tsan_runs"] += 1
    v = judge(c, r, "threads", threads=True)
    if v:
        return Outcome(v, classes=classes)
    s = per_build_summary(r.events)
    if s != ref:
        return Outcome("threaded run gives %s, synchronous run gives %s" % (s, ref), classes=classes)
    return Outcome(None, nontrivial=nontrivial, classes=classes,
                   detail={"schedules": total, "tsan_runs": 1, "cap_hits": classes.count("cap-hit")})
