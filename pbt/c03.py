"""C03 -- build state survives restarts exactly (database transparency)."""
import os

from hypothesis import strategies as st

import common
from common import Outcome
import engine_model as em
import c01

ID = "C03"
LEVEL = "exploration"
FLAVOURS = ["rel"]
TARGETS = ["enginesim"]
RULE = ("Four generated families. diff: a history (no cancellation) is run once in a single engine with the "
        "database attached and once with an engine+database restart inserted before every build; per-build "
        "executed sets, reported reasons, provided values, prior values and results must be identical. bytes: "
        "programs whose keys are biased to what SQLite may rewrite (numeric-looking strings, NUL, invalid "
        "UTF-8, 0xff, long keys) and values with NUL/0xff prefixes; after every build the database is read "
        "raw (sqlite3) and through a fresh BuildDB and must equal the checker's ledger of processed "
        "completions exactly: value, signature, built/computed epochs, dependency list (request order "
        "constraints, flags), distinct keys stay distinct, integrity_check ok. version: a populated database "
        "whose info row is rewritten to a generated (schema, client) pair, or whose file is replaced by "
        "another SQLite schema / truncation / garbage, is opened with a generated client version and "
        "recreate flag: outcome must be {opened empty, error}, or intact iff both versions match. lock: while "
        "a build is inside a task callback a second engine on the same file tries to attach and build and "
        "must fail without storing anything. Non-trivial = diff with >= 2 builds and a reuse after a restart; "
        "bytes with an affinity-sensitive / NUL / non-UTF-8 key that has a dependency edge on it; every "
        "version and lock case; distinct = sha1 of the case.")
ASSUMPTIONS = ["process restarts are modelled by destroying the engine and BuildDB objects and creating new ones "
               "in the same process (no llbuild state is global except SQLite's own)"]


def budget(tier):
    return 12000 if tier == "quick" else 300000


_LONG = st.integers(200, 70000).map(lambda n: (b"K" + b"x" * n).hex())


@st.composite
def bytes_case(draw):
    c = draw(em.history_case(max_ops=8, numeric_keys=True, force_db=True,
                             program_kw={"max_leaves": 4, "max_derived": 6}))
    c["kind"] = "bytes"
    if draw(st.integers(0, 15)) == 0:
        # one very long key
        old = c["rules"][0]["key"]
        new = draw(_LONG)
        c = _rename(c, old, new)
    return c


def _rename(c, old, new):
    import json
    s = json.dumps(c)
    s = s.replace('"%s"' % old, '"%s"' % new)
    return json.loads(s)


@st.composite
def diff_case(draw):
    c = draw(em.history_case(max_ops=10, allow_restart=False, force_db=True))
    c["kind"] = "diff"
    return c


@st.composite
def version_case(draw):
    c = draw(em.history_case(max_ops=4, allow_restart=False, allow_redef=False, force_db=True,
                             program_kw={"max_leaves": 2, "max_derived": 4}))
    c["kind"] = "version"
    top = [r["key"] for r in c["rules"] if not r["leaf"]][-1]
    c["ops"] = [op for op in c["ops"] if op["op"] != "build"] + [{"op": "build", "key": top, "mode": "sync", "choices": []}]
    c["client"] = draw(st.sampled_from([0, 1, 2, 7, 2**31 - 1, 2**31, 2**32 - 1]))
    tam = draw(st.sampled_from(["info", "info", "info", "garbage", "truncate", "foreign", "none", "empty-info"]))
    c["tamper_kind"] = tam
    c["schema"] = draw(st.sampled_from([17, 17, 16, 18, 0, -1, 4]))
    c["stored_client"] = draw(st.sampled_from([c["client"], c["client"], 0, 1, 3, 2**31, 2**32 - 1]))
    c["open_client"] = draw(st.sampled_from([c["client"], c["client"], 0, 1, 3, 2**32 - 1]))
    c["recreate"] = draw(st.booleans())
    c["garbage"] = draw(st.binary(min_size=0, max_size=64)).hex()
    c["top"] = top
    # a third of the 'info' cases: the file is replaced by one of another version WHILE the engine that wrote it
    # lives on (another client recreated it between two builds of a long-lived engine); the engine keeps
    # building, then a new process continues
    c["same_engine"] = tam == "info" and draw(st.integers(0, 2)) == 0
    if c["same_engine"]:
        leaves = [r["key"] for r in c["rules"] if r["leaf"]]
        c["flip"] = [draw(st.sampled_from(leaves)), draw(st.integers(0, 5)), draw(st.sampled_from(leaves)), draw(st.integers(0, 5))]
        # the new process demands keys in another order than the one in which ids were first handed out
        c["other_roots"] = draw(st.lists(st.sampled_from([r["key"] for r in c["rules"]]), min_size=0, max_size=2))
    return c


@st.composite
def lock_case(draw):
    c = draw(em.history_case(max_ops=3, allow_restart=False, allow_redef=False, force_db=True,
                             program_kw={"max_leaves": 2, "max_derived": 3}))
    c["kind"] = "lock"
    top = [r["key"] for r in c["rules"] if not r["leaf"]][-1]
    c["ops"] = [{"op": "build", "key": top, "mode": "sync", "choices": [], "probe": "cb:%d" % draw(st.integers(1, 3))}]
    c["top"] = top
    return c


_LOCKS = [0]


def strategy(tier):
    # the lock family costs SQLite's 5 s busy timeout per case: keep it rare
    return st.one_of(*([diff_case()] * 12 + [bytes_case()] * 12 + [version_case()] * 2) + [st.integers(0, 40).flatmap(
        # (17, not 0: Hypothesis favours the bounds of an integer range)
        lambda n: lock_case() if n == 17 else diff_case())])


def run(case, ctx, dump=False):
    db = ctx.fresh("db")
    res = em.run_enginesim(em.script_for(case, db, dump=dump), timeout=180)
    for suf in ("", "-journal"):
        try:
            os.unlink(db + suf)
        except OSError:
            pass
    return res


def bad_exit(res, what):
    if res.timed_out:
        return "%s: enginesim hung" % what
    if res.rc != 0:
        return "%s: enginesim exited %d: %s" % (what, res.rc, (res.stderr or res.raw)[-500:])
    return None


def observable(trace):
    out = []
    for b in trace["builds"]:
        s = em.summarize_build(b)
        priors = sorted((s["tid2key"].get(e[1]), e[2]) for e in b["events"] if e[0] == "prior")
        out.append({"result": s["result"], "executed": sorted(s["created"]), "needs": sorted(s["needs"].items()),
                    "provides": sorted(s["provides"]), "priors": priors,
                    "uptodate": sorted(set(s["uptodate"]))})
    return out


def with_restarts(case):
    c = dict(case)
    ops = []
    for op in case["ops"]:
        if op["op"] == "build":
            ops.append({"op": "restart"})
        ops.append(op)
    c["ops"] = ops
    return c


SENSITIVE = {b"1", b"01", b"1.0", b" 1", b"1e2", b"-0", b"0x10", b"+5", b"9223372036854775808", b"100", b"1 ",
             b"0", b"00"}


def key_is_special(khex):
    k = bytes.fromhex(khex)
    if k in SENSITIVE or b"\x00" in k or len(k) > 150:
        return True
    try:
        k.decode("utf-8")
    except UnicodeDecodeError:
        return True
    return False


def check_bytes(case, trace):
    led = em.CompletionLedger()
    builds = trace["builds"]
    bi = 0
    nt = False
    for i, op, w in em.replay_world(case):
        if op["op"] != "build":
            continue
        b = builds[bi]
        bi += 1
        s = em.summarize_build(b)
        epoch = int(b["end"].get("epoch", 0))
        led.update(s, w, epoch)
        v = em.check_db(b["db"], led, iteration=epoch)
        if v:
            return "after build %d: %s" % (b["n"], v), nt
        for k, row in led.rows.items():
            if any(key_is_special(d) for d, _ in row["reqs"] + row["discs"]):
                nt = True
    return None, nt


def run_case(case, ctx, verbose=False):
    kind = case["kind"]
    classes = [kind]
    if kind == "diff":
        ra = run(case, ctx)
        v = bad_exit(ra, "single engine")
        if v:
            return Outcome(v, classes=classes)
        cb = with_restarts(case)
        rb = run(cb, ctx)
        v = bad_exit(rb, "restart at every build boundary")
        if v:
            return Outcome(v, classes=classes)
        oa, ob = observable(ra.events), observable(rb.events)
        if oa != ob:
            for n, (x, y) in enumerate(zip(oa, ob)):
                if x != y:
                    diff = {k: (x[k], y[k]) for k in x if x[k] != y[k]}
                    return Outcome("build %d behaves differently when the engine is restarted at every build "
                                   "boundary: %s" % (n + 1, diff), classes=classes)
            return Outcome("different number of builds", classes=classes)
        v, _ = c01.check_values(cb, rb.events)
        if v:
            return Outcome("restarted run: " + v, classes=classes)
        nb = len(ob)
        reuse = any(i > 0 and o["uptodate"] for i, o in enumerate(ob))
        return Outcome(None, nontrivial=nb >= 2 and reuse, classes=classes)
    if kind == "bytes":
        r = run(case, ctx, dump=True)
        v = bad_exit(r, "bytes")
        if v:
            return Outcome(v, classes=classes)
        v, nt = check_bytes(case, r.events)
        if v is None:
            v, _ = c01.check_values(case, r.events)
        if nt:
            classes.append("special-key-with-edge")
        return Outcome(v, nontrivial=nt, classes=classes)
    if kind == "version":
        c = dict(case)
        ops = list(case["ops"])
        tam = case["tamper_kind"]
        if tam == "info":
            ops.append({"op": "dbexec", "sql": "UPDATE info SET version=%d, client_version=%d;" % (
                case["schema"], case["stored_client"])})
        elif tam == "empty-info":
            ops.append({"op": "dbexec", "sql": "DELETE FROM info;"})
        elif tam == "garbage":
            ops.append({"op": "dbwrite", "bytes": case["garbage"]})
        elif tam == "truncate":
            ops.append({"op": "dbwrite", "bytes": (b"SQLite format 3\x00" + bytes.fromhex(case["garbage"])).hex()})
        elif tam == "foreign":
            ops.append({"op": "dbwrite", "bytes": ""})
            ops.append({"op": "dbexec", "sql": "CREATE TABLE other(x); INSERT INTO other VALUES (1);"})
        if case.get("same_engine"):
            # the engine that wrote the file keeps going on the replaced file, then a new process takes over
            f = case["flip"]
            ops.append({"op": "set", "key": f[0], "v": f[1]})
            ops.append({"op": "build", "key": case["top"], "mode": "sync", "choices": []})
            ops.append({"op": "restart"})
            ops.append({"op": "set", "key": f[2], "v": f[3]})
            for k in case.get("other_roots", []):
                ops.append({"op": "build", "key": k, "mode": "sync", "choices": []})
            ops.append({"op": "build", "key": case["top"], "mode": "sync", "choices": []})
            ops.append({"op": "build", "key": case["top"], "mode": "sync", "choices": []})
            c["ops"] = ops
            r = run(c, ctx, dump=True)
            v = bad_exit(r, "version/same-engine")
            if v:
                return Outcome(v, classes=classes + ["file-replaced-under-live-engine"])
            # every dump taken after a build: rows and dependency ids must resolve in key_names
            dumps = [b["db"] for b in r.events["builds"] if b.get("db")]
            dumps += [x[1] for b in r.events["builds"] for x in b["pre"] if isinstance(x, tuple) and x[0] == "dbdump"]
            dumps += [x[1] for x in r.events["trailing"] if isinstance(x, tuple) and x[0] == "dbdump"]
            for d in dumps:
                if d["errors"]:
                    continue
                ids = {k["id"] for k in d["keys"]}
                for row in d["rows"]:
                    dep_ids = [x.partition(":")[0] for x in row["deps"].split(",")] if row["deps"] != "-" else []
                    if row["keyid"] not in ids or any(i not in ids for i in dep_ids):
                        return Outcome("file replaced by another version under a live engine: the recreated database holds "
                                       "a result row (key id %s, dependency ids %s) that refers to ids missing from "
                                       "key_names %s" % (row["keyid"], dep_ids, sorted(ids)),
                                       classes=classes + ["file-replaced-under-live-engine"])
            # dbexec is not a build: the value oracle sees the history without it
            c2 = dict(c)
            c2["ops"] = [o for o in ops if o["op"] != "dbexec"]
            v, _ = c01.check_values(c2, r.events)
            if v:
                return Outcome("file replaced by another version under a live engine, then restart: " + v,
                               classes=classes + ["file-replaced-under-live-engine"])
            last = em.summarize_build(r.events["builds"][-1])
            if last["created"]:
                return Outcome("file replaced by another version under a live engine: the final null build of the new "
                               "process re-ran %s" % sorted(last["created"]), classes=classes + ["file-replaced-under-live-engine"])
            return Outcome(None, nontrivial=True, classes=classes + ["file-replaced-under-live-engine"])
        ops.append({"op": "restart", "client": case["open_client"], "recreate": case["recreate"]})
        ops.append({"op": "build", "key": case["top"], "mode": "sync", "choices": []})
        c["ops"] = ops
        r = run(c, ctx)
        v = bad_exit(r, "version")
        if v:
            return Outcome(v, classes=classes)
        b = r.events["builds"][-1]
        attach = [e for e in b["pre"] if e[0] == "engine-new"]
        ok = attach and "ok=1" in attach[-1]
        stored_schema, stored_client = 17, case["client"]
        if tam == "info":
            stored_schema, stored_client = case["schema"], case["stored_client"]
        match = tam in ("info", "none") and stored_schema == 17 and (stored_client & 0xffffffff) == case["open_client"]
        s = em.summarize_build(b)
        classes.append("match" if match else "mismatch")
        classes.append(tam)
        if match:
            if not ok:
                return Outcome("matching versions but the database was rejected", classes=classes)
            if s["created"]:
                return Outcome("matching versions but stored results were lost: rebuilt %s" % sorted(s["created"]),
                               classes=classes)
        else:
            if ok:
                # must be empty: nothing stored may be interpreted
                bad = [k for k, (reason, _) in s["needs"].items() if reason != 0]
                reused = set(s["uptodate"])
                if bad or reused or not s["created"]:
                    return Outcome("database of version (schema %s, client %s) opened with client %s recreate=%s was "
                                   "interpreted: up-to-date=%s non-NeverBuilt=%s" % (
                                       stored_schema, stored_client, case["open_client"], case["recreate"],
                                       sorted(reused), bad), classes=classes)
                if not case["recreate"]:
                    return Outcome("version mismatch with recreate=false was silently accepted", classes=classes)
            else:
                if b["end"].get("noengine") != "1":
                    return Outcome("attach failed but a build ran", classes=classes)
        return Outcome(None, nontrivial=True, classes=classes)
    if kind == "lock":
        # each lock case costs SQLite's 5 s busy timeout; a worker runs at most four of them (the rest are
        # counted, not run) so that one unlucky worker does not decide the wall time of the tier
        _LOCKS[0] += 1
        if _LOCKS[0] > 4:
            return Outcome(None, nontrivial=False, classes=["lock-not-run(budget)"])
        r = run(case, ctx, dump=True)
        v = bad_exit(r, "lock")
        if v:
            return Outcome(v, classes=classes)
        b = r.events["builds"][0]
        probe = [e for e in b["events"] if e[0].startswith("probe-")]
        att = [e for e in probe if e[0] == "probe-attach"]
        if not att:
            return Outcome(None, nontrivial=False, classes=classes + ["probe-not-reached"])
        built = [e for e in probe if e[0] == "probe-build"]
        if built and built[0][1] != "result=-":
            return Outcome("a second engine built %s while another build held the database" % built[0][1], classes=classes)
        if "ok=1" in att[0] and not [e for e in probe if e[0] == "probe-error"]:
            return Outcome("second engine attached and built without any error", classes=classes)
        # nothing of the probe may be stored
        keys = [k["key"] for k in b["db"]["keys"]]
        if b"probe-key".hex() in keys:
            return Outcome("the second engine's key was stored", classes=classes)
        return Outcome(None, nontrivial=True, classes=classes)
    raise common.HarnessError("unknown kind")
