"""C13 -- file change detection is sound in every file-system mode."""
import os
import shutil
import stat

from hypothesis import strategies as st

import common
from common import Outcome
import val

ID = "C13"
LEVEL = "exploration"
FLAVOURS = ["asan"]
TARGETS = ["valtool"]
RULE = ("Hypothesis generates pairs (state1, state2) of ONE path on a real temporary directory: kind in {missing, "
        "file, dir, symlink->file, symlink->missing; a link names one of four targets, two of them of equal length, and may be re-targeted}, content of 0-70000 bytes (differing at the first / last / any "
        "byte, same or different size), explicit mtime (equal or not, ns resolution), inode kept (rewrite in place) "
        "or replaced (write-temp-and-rename). Each state is observed through createLocalFileSystem(), "
        "DeviceAgnosticFileSystem and ChecksumOnlyFileSystem, with getFileInfo and getLinkInfo, and the two "
        "observations are compared with FileInfo::operator== inside valtool (ASan). Oracle (from os.stat/lstat and "
        "the generated contents): default mode -- unequal whenever existence, size, mtime, device or inode differ, "
        "equal when untouched, never isMissing() for an existing object; device-agnostic -- the same with "
        "device/inode ignored and reported as 0; checksum-only -- equal iff (type, size, content) are equal: any "
        "content change is detected, a pure mtime/inode change is not. Non-trivial = the two states differ in "
        "exactly one observable dimension (content only / mtime only / inode only / size only / kind only); "
        "distinct = sha1 of the case. One case in 25 is a 'huge' pair instead: one sparse file (truncate) whose size "
        "and/or modification time change only above bit 31 / bit 32 (sizes up to 12 GiB, times past 2106), same "
        "inode, observed in default and device-agnostic mode: the observations must compare unequal. One case in "
        "25 observes several untouched files from several threads at once and expects the serial observation.")
ASSUMPTIONS = ["temporary files live on the tmpfs/ext4 of the sandbox; mtimes are set explicitly with utimensat, "
               "the wall clock is never consulted"]


def budget(tier):
    return 100000 if tier == "quick" else 1500000


KINDS = ["missing", "file", "dir", "link-file", "link-missing"]
# what a symbolic link points at: the link's own "content" (its size is the length of this string)
TNAMES = ["target", "targex", "tgt", "target-with-a-longer-name"]
_sizes = st.sampled_from([0, 1, 2, 15, 16, 17, 4095, 4096, 4097, 16383, 16384, 16385, 65536, 70000]) | st.integers(0, 300)


@st.composite
def content(draw):
    n = draw(_sizes)
    fill = draw(st.integers(0, 255))
    return {"n": n, "fill": fill, "flip": []}


@st.composite
def state(draw):
    return {"kind": draw(st.sampled_from(KINDS)), "content": draw(content()), "tname": draw(st.sampled_from(TNAMES)),
            "mtime": [draw(st.sampled_from([0, 1, 1000000000, 1700000000])), draw(st.sampled_from([0, 1, 999999999]))]}


@st.composite
def pair(draw):
    s1 = draw(state())
    how = draw(st.sampled_from(["same", "content-same-size", "content-size", "mtime", "replace-inode", "kind",
                                "free", "untouched", "retarget", "retype-same-text"]))
    if how == "retarget":
        s1["kind"] = draw(st.sampled_from(["link-file", "link-missing"]))
    if how == "retype-same-text":
        # a symbolic link and a regular file whose CONTENT is the link's target string (same size, same bytes,
        # another type), in either order
        s1["kind"] = draw(st.sampled_from(["link-file", "link-missing"]))
        s2 = {"kind": "file", "content": {"n": len(s1["tname"]), "fill": 0, "flip": [], "text": s1["tname"]},
              "mtime": list(s1["mtime"]), "tname": s1["tname"]}
        if draw(st.booleans()):
            s1, s2 = s2, s1
        return {"s1": s1, "s2": s2, "how": how, "inplace": False}
    s2 = {"kind": s1["kind"], "content": dict(s1["content"]), "mtime": list(s1["mtime"]), "tname": s1["tname"]}
    inplace = True
    if how == "content-same-size":
        n = s1["content"]["n"]
        if n == 0:
            s2["content"]["n"] = 1
        else:
            pos = draw(st.sampled_from([0, n - 1, n // 2]) | st.integers(0, n - 1))
            s2["content"]["flip"] = [pos]
    elif how == "content-size":
        s2["content"]["n"] = s1["content"]["n"] + draw(st.sampled_from([1, -1, 4096, 17]))
        if s2["content"]["n"] < 0:
            s2["content"]["n"] = s1["content"]["n"] + 1
    elif how == "mtime":
        s2["mtime"] = [s1["mtime"][0] + draw(st.sampled_from([0, 1])), (s1["mtime"][1] + 1) % 1000000000]
    elif how == "replace-inode":
        inplace = False
    elif how == "kind":
        s2["kind"] = draw(st.sampled_from([k for k in KINDS if k != s1["kind"]]))
        inplace = False
    elif how == "retarget":
        # the link now names something else (same length: only the target string tells; or another length)
        s2["tname"] = draw(st.sampled_from([t for t in TNAMES if t != s1["tname"]]))
        inplace = False
    elif how == "free":
        s2 = draw(state())
        inplace = draw(st.booleans())
    return {"s1": s1, "s2": s2, "how": how, "inplace": inplace}


@st.composite
def concurrent(draw):
    """Several untouched files observed at the same time from several threads (as the lanes of a build do): every
    observation must equal the one taken serially beforehand."""
    n = draw(st.integers(2, 4))
    files = [{"n": draw(st.sampled_from([0, 1, 4096, 16384, 16385, 70000, 300000, 1000000])), "fill": draw(st.integers(0, 255))}
             for _ in range(n)]
    return {"kind": "concurrent", "files": files, "fs": draw(st.sampled_from(["checksum", "checksum", "local", "agnostic"])),
            "repeat": draw(st.integers(1, 4))}


@st.composite
def huge(draw):
    """Field widths: sizes and modification times that differ only above bit 31 / bit 32 (sparse files made with
    truncate; same inode; the other field kept equal). Observed in default and device-agnostic mode only - the
    checksum of 4 GiB is not worth the time."""
    G = 1 << 32
    n1 = draw(st.sampled_from([0, 1, 4096, (1 << 31) - 1, 1 << 31, G - 1, G, G + 1, 3 * G + 17]))
    dn = draw(st.sampled_from([0, G, 2 * G, 1 << 31, G + 1, 1 << 33]))
    t1 = draw(st.sampled_from([5, 1700000000, (1 << 31) - 1, 1 << 31]))
    dt = draw(st.sampled_from([0, G, 1 << 31])) if dn else draw(st.sampled_from([G, 1 << 31, 2 * G]))
    return {"kind": "huge", "n1": n1, "n2": n1 + dn, "t1": t1, "t2": t1 + dt, "ns": draw(st.sampled_from([0, 1, 999999999]))}


def strategy(tier):
    # (repeating one strategy object inside one_of does not weight it: Hypothesis sees two branches)
    return st.integers(0, 24).flatmap(lambda n: concurrent() if n == 17 else huge() if n == 11 else pair())


def data_of(c):
    if c.get("text") is not None:
        return c["text"].encode()
    b = bytearray([c["fill"]]) * c["n"]
    for p in c["flip"]:
        if p < len(b):
            b[p] ^= 0x5a
    return bytes(b)


def wipe(p):
    if os.path.islink(p) or os.path.isfile(p):
        os.unlink(p)
    elif os.path.isdir(p):
        shutil.rmtree(p)


def apply_state(base, s, prev=None, inplace=False):
    p = os.path.join(base, "obj")
    tname = s.get("tname", "target")
    tgt = os.path.join(base, tname)
    mt = s["mtime"][0] * 1000000000 + s["mtime"][1]
    same_kind = prev is not None and prev["kind"] == s["kind"] and prev.get("tname", "target") == tname
    if not (inplace and same_kind):
        wipe(p)
        for t in TNAMES:
            wipe(os.path.join(base, t))
    k = s["kind"]
    if k == "missing":
        wipe(p)
        for t in TNAMES:
            wipe(os.path.join(base, t))
        return
    if k == "file":
        if inplace and same_kind:
            with open(p, "r+b" if os.path.exists(p) else "wb") as f:
                f.seek(0)
                f.write(data_of(s["content"]))
                f.truncate()
        else:
            tmp = p + ".tmp"
            with open(tmp, "wb") as f:
                f.write(data_of(s["content"]))
            os.rename(tmp, p)
        os.utime(p, ns=(mt, mt))
    elif k == "dir":
        if not os.path.isdir(p):
            os.mkdir(p)
        os.utime(p, ns=(mt, mt))
    elif k == "link-file":
        if inplace and same_kind and os.path.exists(tgt):
            with open(tgt, "r+b") as f:
                f.write(data_of(s["content"]))
                f.truncate()
        else:
            with open(tgt, "wb") as f:
                f.write(data_of(s["content"]))
        os.utime(tgt, ns=(mt, mt))
        if not os.path.islink(p):
            os.symlink(tname, p)
        os.utime(p, ns=(mt, mt), follow_symlinks=False)
    elif k == "link-missing":
        wipe(tgt)
        if not os.path.islink(p):
            os.symlink(tname, p)
        os.utime(p, ns=(mt, mt), follow_symlinks=False)


def truth(base, link):
    p = os.path.join(base, "obj")
    try:
        st_ = os.lstat(p) if link else os.stat(p)
    except OSError:
        return None
    d = {"dev": st_.st_dev, "ino": st_.st_ino, "size": st_.st_size, "mtime": st_.st_mtime_ns, "mode": st_.st_mode}
    if stat.S_ISLNK(st_.st_mode):
        d["type"] = "link"
        d["content"] = os.readlink(p).encode()
    elif stat.S_ISDIR(st_.st_mode):
        d["type"] = "dir"
        d["content"] = b""
    else:
        d["type"] = "file"
        with open(p, "rb") as f:
            d["content"] = f.read()
    return d


def observe(base):
    p = os.path.join(base, "obj")
    out = {}
    for fs in ("local", "agnostic", "checksum"):
        for link in (0, 1):
            r = val.ask("finfo %s %d %s" % (fs, link, val.hx(p.encode()))).split(" ")
            out[(fs, link)] = {"info": r[0], "missing": r[1] == "1", "isdir": r[2] == "1"}
    return out


def run_concurrent(case, ctx):
    base = ctx.fresh("c13p")
    os.makedirs(base)
    try:
        paths = []
        for i, f in enumerate(case["files"]):
            p = os.path.join(base, "f%d" % i)
            with open(p, "wb") as fh:
                # distinct content per file and per 16 KiB chunk, so that a chunk digested from another
                # thread's read changes the checksum
                blk = bytes([(f["fill"] + i) & 0xff])
                data = bytearray(blk * f["n"])
                for off in range(0, f["n"], 16384):
                    data[off] = (off // 16384 + i * 7) & 0xff
                fh.write(data)
            paths.append(p)
        serial = [val.ask("finfo %s 0 %s" % (case["fs"], val.hx(p.encode()))).split(" ")[0] for p in paths]
        got = val.ask("pfinfo %s %d %s" % (case["fs"], case["repeat"], " ".join(val.hx(p.encode()) for p in paths))).split(" ")
        k = case["repeat"]
        for i, p in enumerate(paths):
            for j in range(k):
                if got[i * k + j] != serial[i]:
                    return Outcome("%s mode: file %d (%d bytes) was not touched, but observation %d taken while %d other "
                                   "threads were observing other files differs from the serial one: %s vs %s" % (
                                       case["fs"], i, case["files"][i]["n"], j, len(paths) - 1, got[i * k + j], serial[i]),
                                   classes=["concurrent"])
        big = sum(1 for f in case["files"] if f["n"] > 16384) >= 2
        return Outcome(None, nontrivial=big and case["fs"] == "checksum", classes=["concurrent"])
    except val.Died as e:
        return Outcome(e.msg)
    finally:
        shutil.rmtree(base, ignore_errors=True)


def run_huge(case, ctx):
    base = ctx.fresh("c13h")
    os.makedirs(base)
    p = os.path.join(base, "obj")
    try:
        obs = []
        for n, t in ((case["n1"], case["t1"]), (case["n2"], case["t2"])):
            with open(p, "ab") as f:
                f.truncate(n)
            mt = t * 1000000000 + case["ns"]
            os.utime(p, ns=(mt, mt))
            st_ = os.stat(p)
            if st_.st_size != n or st_.st_mtime_ns != mt:
                return Outcome(None, classes=["huge-unsupported-by-filesystem"])
            obs.append({fs: val.ask("finfo %s 0 %s" % (fs, val.hx(p.encode()))).split(" ")[0] for fs in ("local", "agnostic")})
        dims = [d for d, ch in (("size", case["n1"] != case["n2"]), ("mtime", case["t1"] != case["t2"])) if ch]
        for fs in ("local", "agnostic"):
            if val.ask("infoeq %s %s" % (obs[0][fs], obs[1][fs])) == "1":
                return Outcome("%s/getFileInfo: the two observations compare EQUAL although %s changed (size %d -> %d, "
                               "mtime %d s -> %d s; %s -> %s)" % (fs, dims, case["n1"], case["n2"], case["t1"], case["t2"],
                                                                  obs[0][fs], obs[1][fs]), classes=["huge"])
        return Outcome(None, nontrivial=len(dims) == 1, classes=["huge", "huge-one-dimension:" + dims[0]] if len(dims) == 1 else ["huge"])
    except val.Died as e:
        return Outcome(e.msg)
    finally:
        shutil.rmtree(base, ignore_errors=True)


def run_case(case, ctx, verbose=False):
    if case.get("kind") == "concurrent":
        return run_concurrent(case, ctx)
    if case.get("kind") == "huge":
        return run_huge(case, ctx)
    base = ctx.fresh("c13")
    os.makedirs(base)
    try:
        apply_state(base, case["s1"])
        t1 = {l: truth(base, l) for l in (0, 1)}
        o1 = observe(base)
        if case["how"] != "untouched":
            apply_state(base, case["s2"], prev=case["s1"], inplace=case["inplace"])
        t2 = {l: truth(base, l) for l in (0, 1)}
        o2 = observe(base)
        dims_total = set()
        for (fs, link), a in o1.items():
            b = o2[(fs, link)]
            eq = val.ask("infoeq %s %s" % (a["info"], b["info"])) == "1"
            x, y = t1[link], t2[link]
            for obs, tr in ((a, x), (b, y)):
                if tr is not None and obs["missing"]:
                    return Outcome("%s/%s: existing object reported as the all-zero 'missing' record" % (fs, "link" if link else "file"))
                if tr is None and not obs["missing"]:
                    return Outcome("%s/%s: missing object not reported as missing: %s" % (fs, link, obs["info"]))
                f = obs["info"].split(":")
                if fs in ("agnostic", "checksum") and (f[0] != "0" or f[1] != "0"):
                    return Outcome("%s mode reports device/inode %s:%s" % (fs, f[0], f[1]))
                if fs == "checksum" and (f[4] != "0" or f[5] != "0") and tr is not None:
                    return Outcome("checksum-only mode reports a modification time %s:%s" % (f[4], f[5]))
            dims = set()
            if (x is None) != (y is None):
                dims.add("existence")
            elif x is not None:
                if x["size"] != y["size"]:
                    dims.add("size")
                if x["mtime"] != y["mtime"]:
                    dims.add("mtime")
                if (x["dev"], x["ino"]) != (y["dev"], y["ino"]):
                    dims.add("inode")
                if x["type"] != y["type"]:
                    dims.add("type")
                if x["content"] != y["content"]:
                    dims.add("content")
            dims_total |= dims
            name = "%s/%s" % (fs, "getLinkInfo" if link else "getFileInfo")
            if fs == "local":
                must_differ = bool(dims & {"existence", "size", "mtime", "inode"})
                must_equal = case["how"] == "untouched"
            elif fs == "agnostic":
                must_differ = bool(dims & {"existence", "size", "mtime"})
                must_equal = case["how"] == "untouched"
            else:
                must_differ = bool(dims & {"existence", "size", "type", "content"})
                must_equal = not must_differ
            if must_differ and eq:
                return Outcome("%s: the two observations compare EQUAL although %s changed (%s -> %s)" % (
                    name, sorted(dims), a["info"], b["info"]))
            if must_equal and not eq:
                return Outcome("%s: the two observations compare UNEQUAL although only %s changed (%s -> %s)" % (
                    name, sorted(dims) or "nothing", a["info"], b["info"]))
    except val.Died as e:
        return Outcome(e.msg)
    finally:
        shutil.rmtree(base, ignore_errors=True)
    cls = [case["how"]]
    nt = len(dims_total) == 1
    if nt:
        cls.append("one-dimension:" + next(iter(dims_total)))
    return Outcome(None, nontrivial=nt, classes=cls)
