"""C18 -- Ninja builds converge to the clean-build state and do no unnecessary work."""
import copy
import os
import subprocess

from hypothesis import strategies as st

import common
from common import Outcome
import bs_model as bm

ID = "C18"
LEVEL = "exploration"
FLAVOURS = ["rel"]
TARGETS = ["llbuild", "vtool"]
RULE = ("Hypothesis generates a Ninja manifest over the deterministic `vtool` (explicit / implicit / order-only "
        "inputs, multiple outputs, phony aliases, depfile + deps=gcc with '#include'-discovered sources, restat, "
        "generator edges (whose command line is never edited), pools, rspfile) and a history of source edits, output deletions, manifest edits (command line changed, "
        "edge added / removed, explicit input re-wired) and injected command failures, each followed by "
        "`llbuild ninja build` in a NEW process, -j1 or -j4, with build.db or --no-db; all mtimes come from the "
        "logical clock shared with vtool, so an edited source is always newer than existing outputs. Oracles: after "
        "each exit-0 build every output reachable from the default target holds the bytes the manifest evaluator "
        "computes; with a database an immediate rebuild starts no command; after exactly one change following a "
        "successful full build, the started set S satisfies must <= S <= may, where must = commands whose own "
        "command line changed, whose output was deleted or that directly read an edited file (declared or "
        "depfile-discovered), and may = must plus everything downstream through explicit/implicit/discovered edges "
        "(never through order-only edges); a failing command stops its dependents, fails the build and is retried. "
        "Non-trivial = a history with a build in which the update-if-newer shortcut or a restat cut-off or an "
        "order-only edge kept a command from running while another command ran; distinct = sha1 of the case.")
ASSUMPTIONS = ["outputs are never tampered with (only deleted): Ninja's model does not rebuild an output that is newer than its inputs",
               "order-only inputs are not read by the command; depfile-reported files exist before the command runs"]

LLBUILD = os.path.join(common.BIN["rel"], "llbuild")


def budget(tier):
    return 6000 if tier == "quick" else 200000


@st.composite
def manifest(draw):
    nsrc = draw(st.integers(1, 4))
    sources = ["s%d.c" % i for i in range(nsrc)]
    # header names that need Makefile escaping in the depfile (blank, '#', backslash) as well as plain ones
    headers = [draw(st.sampled_from(["h%d.h", "h%d.h", "h %d.h", "h#%d.h", "h\\%d.h"])) % i
               for i in range(draw(st.integers(0, 2)))]
    text = {}
    for s in sources:
        body = "src-%d\n" % draw(st.integers(0, 3))
        if headers and draw(st.integers(0, 1)) == 0:
            body += "#include %s\n" % draw(st.sampled_from(headers))
        text[s] = body
    for h in headers:
        text[h] = "hdr-%d\n" % draw(st.integers(0, 3))
    edges = []
    aliases = []
    alias_pool = []
    avail = list(sources)
    n = draw(st.integers(1, 7))
    for i in range(n):
        nin = draw(st.integers(0, min(3, len(avail))))
        ins = draw(st.permutations(avail))[:nin]
        rest = [a for a in avail if a not in ins]
        imp = draw(st.permutations(rest))[:draw(st.integers(0, min(1, len(rest))))] if rest else []
        rest = [a for a in rest if a not in imp]
        produced = [a for a in rest if not a.endswith(".c") and not a.endswith(".h")]
        oo = draw(st.permutations(produced))[:draw(st.integers(0, min(1, len(produced))))] if produced else []
        nout = draw(st.sampled_from([1, 1, 1, 2]))
        outs = ["o%d_%d" % (i, j) for j in range(nout)]
        e = {"name": "E%d" % i, "ins": ins, "implicit": imp, "orderonly": oo, "outs": outs,
             "salt": "s%d" % draw(st.integers(0, 2)),
             "depfile": draw(st.integers(0, 2)) == 0 and any(x.endswith(".c") for x in ins + imp),
             "restat": draw(st.integers(0, 4)) == 0,
             "pool": draw(st.integers(0, 5)) == 0,
             "rsp": draw(st.integers(0, 6)) == 0}
        # generator = 1: identical to an ordinary edge except that a changed command line does not re-run it,
        # so the manifest edits below never change a generator edge's command line
        e["gen"] = not (e["depfile"] or e["restat"] or e["rsp"]) and draw(st.integers(0, 5)) == 0
        # an implicit dependency on a phony alias of earlier outputs (`build al: phony o1 o2`, `... | al`)
        e["alias"] = draw(st.sampled_from(alias_pool)) if alias_pool and draw(st.integers(0, 2)) == 0 else None
        # an implicit input the command is declared to depend on but does not read (like a tool or a config file):
        # it is not on the command line, yet a change of it has to re-run the command
        e["unread"] = [draw(st.sampled_from(sources))] if draw(st.integers(0, 5)) == 0 else []
        e["unread"] = [u for u in e["unread"] if u not in ins + imp]
        edges.append(e)
        avail += outs
        if draw(st.integers(0, 4)) == 0:
            produced_all = [o for d in edges for o in d["outs"]]
            aliases.append({"name": "al%d" % i, "ins": draw(st.permutations(produced_all))[:draw(st.integers(1, min(2, len(produced_all))))]})
            alias_pool.append("al%d" % i)
    if draw(st.booleans()):
        allouts = [o for e in edges for o in e["outs"]]
        aliases.append({"name": "all", "ins": draw(st.permutations(allouts))[:draw(st.integers(1, len(allouts)))]})
    return {"edges": edges, "aliases": aliases, "sources": text, "headers": headers}


def plain(names):
    """names that may be declared in the manifest and on a command line without quoting (the oddly named
    headers are reached through depfiles only)"""
    return [n for n in names if not any(ch in n for ch in " #\\")]


@st.composite
def case(draw):
    m = draw(manifest())
    srcs = list(m["sources"])
    ops = [{"op": "build", "jobs": draw(st.sampled_from([1, 4]))}]
    cur = copy.deepcopy(m)
    extra = [0]
    for _ in range(draw(st.integers(1, 6))):
        k = draw(st.sampled_from(["edit", "edit", "edit", "delete-out", "salt", "add-edge", "remove-edge", "rewire",
                                  "drop-input", "rsp-salt", "add-unread", "fault", "build", "build"]))
        outs = [o for e in cur["edges"] for o in e["outs"]]
        if k == "edit":
            s = draw(st.sampled_from(srcs))
            body = "edit-%d\n" % draw(st.integers(0, 5))
            if cur["headers"] and s.endswith(".c") and draw(st.integers(0, 1)) == 0:
                body += "#include %s\n" % draw(st.sampled_from(cur["headers"]))
            ops.append({"op": "write", "path": s, "text": body})
        elif k == "delete-out" and outs:
            ops.append({"op": "delete", "path": draw(st.sampled_from(outs))})
        elif k == "salt" and [e for e in cur["edges"] if not e.get("gen")]:
            e = draw(st.sampled_from([e for e in cur["edges"] if not e.get("gen")]))
            e["salt"] = "n%d" % draw(st.integers(0, 5))
            ops.append({"op": "manifest", "edit": {"k": "salt", "edge": e["name"], "salt": e["salt"]}})
        elif k == "add-edge":
            extra[0] += 1
            pool = plain(srcs) + outs
            ins = draw(st.permutations(pool))[:draw(st.integers(0, min(2, len(pool))))]
            e = {"name": "X%d" % extra[0], "ins": ins, "implicit": [], "orderonly": [], "outs": ["x%d_0" % extra[0]],
                 "salt": "x", "depfile": False, "restat": False, "pool": False, "rsp": False, "unread": []}
            cur["edges"].append(e)
            ops.append({"op": "manifest", "edit": {"k": "add", "edge": e}})
        elif k == "remove-edge" and len(cur["edges"]) > 1:
            e = draw(st.sampled_from(cur["edges"]))
            cur["edges"].remove(e)
            for a in cur["aliases"]:
                a["ins"] = [i for i in a["ins"] if i not in e["outs"]] or a["ins"][:0]
            ops.append({"op": "manifest", "edit": {"k": "remove", "edge": e["name"]}})
        elif k == "rewire" and [e for e in cur["edges"] if not e.get("gen")]:
            e = draw(st.sampled_from([e for e in cur["edges"] if not e.get("gen")]))
            idx = cur["edges"].index(e)
            before = plain(srcs) + [o for d in cur["edges"][:idx] for o in d["outs"]]
            cand = [x for x in before if x not in e["ins"] + e["implicit"] + e["orderonly"] + e["outs"]]
            if cand:
                new = draw(st.sampled_from(cand))
                if e["ins"] and draw(st.booleans()):
                    e["ins"] = e["ins"][:-1] + [new]
                else:
                    e["ins"] = e["ins"] + [new]
                ops.append({"op": "manifest", "edit": {"k": "rewire", "edge": e["name"], "ins": list(e["ins"])}})
        elif k == "add-unread" and [e for e in cur["edges"] if not e.get("gen")]:
            e = draw(st.sampled_from([e for e in cur["edges"] if not e.get("gen")]))
            cand = [x for x in plain(srcs) if x not in e["ins"] + e["implicit"] + e.get("unread", [])]
            if cand:
                e["unread"] = e.get("unread", []) + [draw(st.sampled_from(cand))]
                ops.append({"op": "manifest", "edit": {"k": "unread", "edge": e["name"], "unread": list(e["unread"])}})
        elif k == "rsp-salt" and [e for e in cur["edges"] if e["rsp"] and not e["depfile"] and not e["restat"] and len(e["outs"]) == 1]:
            # only the CONTENT of the response file changes (the command line proper stays the same)
            e = draw(st.sampled_from([e for e in cur["edges"] if e["rsp"] and not e["depfile"] and not e["restat"] and len(e["outs"]) == 1]))
            e["rsp_salt"] = "r%d" % draw(st.integers(0, 3))
            ops.append({"op": "manifest", "edit": {"k": "rspsalt", "edge": e["name"], "salt": e["rsp_salt"]}})
        elif k == "drop-input" and [e for e in cur["edges"] if len(e["ins"]) >= 2 and not e.get("gen")]:
            e = draw(st.sampled_from([e for e in cur["edges"] if len(e["ins"]) >= 2 and not e.get("gen")]))
            e["ins"] = e["ins"][:-1]
            ops.append({"op": "manifest", "edit": {"k": "rewire", "edge": e["name"], "ins": list(e["ins"])}})
        elif k == "fault" and cur["edges"]:
            e = draw(st.sampled_from(cur["edges"]))
            ops.append({"op": "fault", "cmd": e["name"], "fault": draw(st.sampled_from(["exit 1", "signal 11", "exit 3", "signal 9", "signal 2"]))})
            ops.append({"op": "build", "jobs": draw(st.sampled_from([1, 4])), "expect_fail": True})
            ops.append({"op": "fault", "cmd": e["name"], "fault": None})
            if len(e["ins"]) >= 2 and not e.get("gen") and draw(st.booleans()):
                # the manifest is edited before the retry: the failed command's input list gets shorter
                e["ins"] = e["ins"][:-1]
                ops.append({"op": "manifest", "edit": {"k": "rewire", "edge": e["name"], "ins": list(e["ins"])}})
        ops.append({"op": "build", "jobs": draw(st.sampled_from([1, 4]))})
    return {"manifest": m, "ops": ops, "db": draw(st.integers(0, 4)) != 0}


def strategy(tier):
    return case()


def to_desc(m):
    """The manifest as a bs_model description (for the evaluator)."""
    cmds = []
    for e in m["edges"]:
        c = {"name": e["name"], "tool": "shell", "inputs": e["ins"] + e["implicit"],
             # (the alias is built first but not read: for the evaluator it is an ordering edge)
             "order_only": e["orderonly"] + ([e["alias"]] if e.get("alias") else []),
             "outputs": e["outs"], "salt": e["salt"]}
        if e["depfile"]:
            c["deps"] = "makefile"
        if e["restat"]:
            c["restat"] = True
        if e["rsp"] and not e["depfile"] and not e["restat"] and len(e["outs"]) == 1:
            # rspfile_content = $in: the explicit inputs, blank-separated; the command reads the file
            # (rule level: rspfile_content = $in $rsalt -- a build-level binding is evaluated when it is declared,
            # where $in does not exist yet, so the salt travels in a variable of its own)
            c["rsp"] = " ".join(e["ins"]) + " " + (e.get("rsp_salt") or "")
            c["rsp_file"] = e["outs"][0] + ".rsp"
        cmds.append(c)
    for a in m["aliases"]:
        cmds.append({"name": "alias-" + a["name"], "tool": "phony-ninja", "inputs": a["ins"], "outputs": [a["name"]]})
    return {"commands": cmds, "targets": {}, "default": ""}


def write_manifest(ws, m):
    L = ["rule run", "  command = $cmd", "  description = RUN $out",
         "rule run_dep", "  command = $cmd", "  depfile = $dfile", "  deps = gcc",
         "rule run_restat", "  command = $cmd", "  restat = 1",
         "rule run_rsp", "  command = $cmd", "  rspfile = $out.rsp", "  rspfile_content = $in $rsalt",
         "rule run_gen", "  command = $cmd", "  generator = 1",
         "pool slow", "  depth = 1", ""]
    desc = to_desc(m)
    byname = {c["name"]: c for c in desc["commands"]}
    for e in m["edges"]:
        rule = ("run_dep" if e["depfile"] else "run_restat" if e["restat"] else "run_rsp" if e["rsp"]
                else "run_gen" if e.get("gen") else "run")
        line = "build %s: %s %s" % (" ".join(e["outs"]), rule, " ".join(e["ins"]))
        extra_imp = e["implicit"] + e.get("unread", []) + ([e["alias"]] if e.get("alias") else [])
        if extra_imp:
            line += " | " + " ".join(extra_imp)
        if e["orderonly"]:
            line += " || " + " ".join(e["orderonly"])
        L.append(line)
        c = dict(byname[e["name"]])
        if e["restat"] and not e["depfile"]:
            c["restat"] = True
        else:
            c.pop("restat", None)
        L.append("  cmd = " + " ".join(bm.command_args(c)))
        if e.get("rsp_salt") and c.get("rsp") is not None:
            L.append("  rsalt = " + e["rsp_salt"])
        if e["depfile"]:
            L.append("  dfile = %s.d" % e["name"])
        if e["pool"]:
            L.append("  pool = slow")
    for a in m["aliases"]:
        L.append("build %s: phony %s" % (a["name"], " ".join(a["ins"])))
    with open(ws.path("build.ninja"), "w") as f:
        f.write("\n".join(L) + "\n")


def ninja_build(ws, jobs, db):
    cmd = [LLBUILD, "ninja", "build", "-C", ws.dir, "-j", str(jobs), "--no-regenerate"]
    cmd += ["--db", "build.db"] if db else ["--no-db"]
    try:
        p = subprocess.run(cmd, stdout=subprocess.PIPE, stderr=subprocess.PIPE, env=ws.env(), timeout=120)
    except subprocess.TimeoutExpired:
        return bm.BuildResult(-999, [], "", ws.take_log(), timed_out=True)
    r = bm.BuildResult(p.returncode, [], p.stderr.decode("latin-1") + p.stdout.decode("latin-1")[-600:], ws.take_log())
    r.stdout = p.stdout.decode("latin-1")
    return r


def default_roots(m):
    # no default statement: ninja builds every output that is not an input of another edge
    consumed = {i for e in m["edges"] for i in e["ins"] + e["implicit"] + e["orderonly"] + e.get("unread", []) + ([e["alias"]] if e.get("alias") else [])} | \
               {i for a in m["aliases"] for i in a["ins"]}
    roots = [o for e in m["edges"] for o in e["outs"] if o not in consumed] + [a["name"] for a in m["aliases"]
                                                                              if a["name"] not in consumed]
    return roots


def apply_edit(m, ed):
    if ed["k"] == "salt":
        for e in m["edges"]:
            if e["name"] == ed["edge"]:
                e["salt"] = ed["salt"]
    elif ed["k"] == "unread":
        for e in m["edges"]:
            if e["name"] == ed["edge"]:
                e["unread"] = list(ed["unread"])
    elif ed["k"] == "rspsalt":
        for e in m["edges"]:
            if e["name"] == ed["edge"]:
                e["rsp_salt"] = ed["salt"]
    elif ed["k"] == "add":
        m["edges"].append(copy.deepcopy(ed["edge"]))
    elif ed["k"] == "remove":
        gone = [e for e in m["edges"] if e["name"] == ed["edge"]]
        m["edges"] = [e for e in m["edges"] if e["name"] != ed["edge"]]
        for g in gone:
            for a in m["aliases"]:
                a["ins"] = [i for i in a["ins"] if i not in g["outs"]]
        m["aliases"] = [a for a in m["aliases"] if a["ins"]]
        left = {a["name"] for a in m["aliases"]}
        for e in m["edges"]:
            if e.get("alias") and e["alias"] not in left:
                e["alias"] = None
    elif ed["k"] == "rewire":
        for e in m["edges"]:
            if e["name"] == ed["edge"]:
                e["ins"] = list(ed["ins"])


def evaluate(ws, m):
    desc = to_desc(m)
    # phony aliases: inputs only
    for c in desc["commands"]:
        if c["tool"] == "phony-ninja":
            c["tool"] = "phony"
    ev = bm.Evaluator(ws, desc)
    roots = default_roots(m)
    cmds = ev.evaluate(roots)
    return ev, cmds, roots


def run_case(case, ctx, verbose=False):
    ws = bm.Workspace(ctx)
    try:
        m = copy.deepcopy(case["manifest"])
        for s, t in m["sources"].items():
            ws.write(s, t)
        write_manifest(ws, m)
        db = case["db"]
        cls = ["db" if db else "no-db"]
        nt = False
        known_hit = False
        last_ok = False            # previous build succeeded and nothing changed since
        changes = []               # changes since the last successful build
        discovered = {}            # edge -> headers its last run reported
        nb = 0
        for op in case["ops"]:
            o = op["op"]
            if o == "write":
                ws.write(op["path"], op["text"])
                changes.append(("edit", op["path"]))
            elif o == "delete":
                if ws.delete(op["path"]):
                    changes.append(("delete", op["path"]))
            elif o == "manifest":
                before = ws.read("build.ninja")
                apply_edit(m, op["edit"])
                write_manifest(ws, m)
                if ws.read("build.ninja") != before:
                    changes.append(("manifest", op["edit"]))
            elif o == "fault":
                ws.set_fault(op["cmd"], op["fault"])
                if op["fault"]:
                    changes.append(("fault", op["cmd"]))
            elif o == "build":
                nb += 1
                ev, cmds, roots = evaluate(ws, m)
                r = ninja_build(ws, op["jobs"], db)
                if r.timed_out:
                    return Outcome("build %d hung" % nb, classes=cls)
                if r.rc < 0 or "AddressSanitizer" in r.stderr or "Assertion" in r.stderr:
                    return Outcome("build %d: llbuild crashed rc=%s %s" % (nb, r.rc, r.stderr[-500:]), classes=cls)
                started = [c for c, w in r.log if w == "start"]
                failed = [c for c, w in r.log if w == "fail"]
                if ev.missing_inputs:
                    last_ok = False
                    changes.append(("missing", None))
                    continue
                if op.get("expect_fail"):
                    if failed and r.rc == 0:
                        return Outcome("build %d: command %s failed but the build reported success" % (nb, failed), classes=cls)
                    # dependents of a failed command must not start
                    desc = to_desc(m)
                    byname = {c["name"]: c for c in desc["commands"]}
                    prod = bm.producers(desc)
                    for x in started:
                        stack = list(byname[x]["inputs"]) if x in byname else []
                        seen = set()
                        while stack:
                            n = stack.pop()
                            c = prod.get(n)
                            if c is None or c["name"] in seen:
                                continue
                            seen.add(c["name"])
                            stack += c["inputs"]
                        if seen & set(failed):
                            return Outcome("build %d: %s started although its input producer %s failed" % (
                                nb, x, sorted(seen & set(failed))), classes=cls)
                    cls.append("fault")
                    last_ok = False
                    continue
                if r.rc != 0:
                    return Outcome("build %d failed although every input exists: %s" % (nb, r.stderr[-500:]), classes=cls)
                v, _, _ = bm.check_outputs(ws, to_desc_phony(m), roots)
                if v:
                    return Outcome("build %d: %s" % (nb, v), classes=cls)
                needed = [c["name"] for c in cmds if c["tool"] == "shell"]
                # (1) no unnecessary work after exactly one change following a successful full build
                if db and last_ok and len(changes) == 1 and changes[0][0] in ("edit", "delete", "manifest"):
                    must, may = must_may(m, changes[0], discovered)
                    must = {c for c in must if c in needed}
                    af = alias_affected(m)
                    extra = [c for c in started if c not in may and c not in af]
                    if [c for c in started if c not in may and c in af]:
                        known_hit = True
                    missing = [c for c in must if c not in started]
                    if extra:
                        return Outcome("build %d after %s started %s, which does not depend on the change "
                                       "(allowed: %s)" % (nb, changes[0], extra, sorted(may)), classes=cls)
                    if missing:
                        return Outcome("build %d after %s did not start %s" % (nb, changes[0], missing), classes=cls)
                    skipped = [c for c in needed if c not in started]
                    if started and skipped:
                        nt = True
                    cls.append("one-change")
                if db and last_ok and not changes and started:
                    if set(started) <= alias_affected(m):
                        known_hit = True
                    else:
                        return Outcome("build %d with no change since the last successful build started %s" % (nb, started),
                                       classes=cls)
                # record what each run discovered (for the next must/may computation)
                for c in started:
                    e = next((e for e in m["edges"] if e["name"] == c), None)
                    if e and e["depfile"]:
                        hs = []
                        for i in e["ins"] + e["implicit"]:
                            data = ws.read(i) or b""
                            hs += [l[9:].decode() for l in data.split(b"\n") if l.startswith(b"#include ")]
                        discovered[c] = hs
                # (2) immediate rebuild does nothing (with a database)
                if db:
                    r2 = ninja_build(ws, op["jobs"], db)
                    if r2.rc != 0:
                        return Outcome("immediate rebuild failed: %s" % r2.stderr[-300:], classes=cls)
                    if r2.ran():
                        if set(r2.ran()) <= alias_affected(m):
                            known_hit = True
                        else:
                            return Outcome("an immediate rebuild after build %d re-ran %s" % (nb, r2.ran()), classes=cls)
                if "commands updated" in getattr(r, "stdout", "") or any(e["restat"] for e in m["edges"]):
                    pass
                last_ok = True
                changes = []
        if any(e["orderonly"] for e in m["edges"]):
            cls.append("order-only")
        if any(e["restat"] for e in m["edges"]):
            cls.append("restat")
        if any(e.get("gen") for e in m["edges"]):
            cls.append("generator")
        if any(e["depfile"] for e in m["edges"]):
            cls.append("depfile")
        if any(e.get("alias") for e in m["edges"]):
            cls.append("alias-input")
        if known_hit:
            cls.append("known:" + FINDING)
        return Outcome(None, nontrivial=nt, classes=sorted(set(cls)), known=FINDING if known_hit else None)
    finally:
        ws.cleanup()


def to_desc_phony(m):
    d = to_desc(m)
    for c in d["commands"]:
        if c["tool"] == "phony-ninja":
            c["tool"] = "phony"
    return d


def alias_ins(m, e):
    if not e.get("alias"):
        return []
    return [i for a in m["aliases"] if a["name"] == e["alias"] for i in a["ins"]]


FINDING = "C18-phony-alias-dependent-reruns"


def alias_affected(m):
    """Edges that take a phony alias as an input, and everything downstream of them (known finding: llbuild
    re-runs these in every build, because a phony command whose output is not a file always forces a change)."""
    af = {e["name"] for e in m["edges"] if e.get("alias")}
    changed = True
    while changed:
        changed = False
        for e in m["edges"]:
            if e["name"] in af:
                continue
            ins = set(e["ins"] + e["implicit"] + alias_ins(m, e))
            if any(o["name"] in af and set(o["outs"]) & ins for o in m["edges"]):
                af.add(e["name"])
                changed = True
    return af


def must_may(m, change, discovered):
    """Commands that must / may start after the single change."""
    kind, what = change
    must = set()
    may_only = set()
    edges = m["edges"]
    if kind == "edit":
        for e in edges:
            if what in e["ins"] + e["implicit"] + e.get("unread", []) or what in discovered.get(e["name"], []):
                must.add(e["name"])
    elif kind == "delete":
        for e in edges:
            if what in e["outs"]:
                must.add(e["name"])
    elif kind == "manifest":
        ed = what
        if ed["k"] in ("salt", "rewire", "rspsalt"):
            must.add(ed["edge"])
        elif ed["k"] == "unread":
            may_only.add(ed["edge"])      # (Ninja re-runs only if the new input is newer: allowed, not required)
        elif ed["k"] == "add":
            must.add(ed["edge"]["name"])
        elif ed["k"] == "remove":
            # consumers of the removed edge's outputs now read them as plain files: Ninja sees no change
            pass
    may = set(must) | may_only
    changed = True
    while changed:
        changed = False
        for e in edges:
            if e["name"] in may:
                continue
            for other in edges:
                if other["name"] in may and set(other["outs"]) & set(e["ins"] + e["implicit"] + alias_ins(m, e)):
                    may.add(e["name"])
                    changed = True
                    break
    if kind == "manifest" and what["k"] == "remove":
        # removing an edge may legitimately re-run its former consumers (the node changed from
        # produced to plain input): allowed, not required
        for e in edges:
            may.add(e["name"])
    return must, may


def probes(ctx):
    import json
    out = []
    for e in common.load_known(ID):
        with open(os.path.join(common.VERIF, e["probe"])) as f:
            case = json.load(f)
        o = run_case(case, ctx)
        out.append((e["id"], o.violation is None and o.known == e["id"], e["description"]))
    return out
