"""C16 -- every job runs exactly once within the lane limit; every process accounted for."""
import os
import re
import subprocess

from hypothesis import strategies as st

import common
from common import Outcome, BIN

ID = "C16"
LEVEL = "exploration"
FLAVOURS = ["rel", "tsan"]
TARGETS = ["qsim", "childsim"]
TIMING = True
RULE = ("Hypothesis generates a job mix for LaneBasedExecutionQueue (1-8 lanes, both schedulers) or SerialQueue: 1-40 "
        "jobs (thorough: up to 200) with durations 0-5 ms, normal/high priority, jobs that add jobs, and for ~half of "
        "them a process launch of `childsim` with a generated behaviour script -- 0 B to 300 KiB of output on stdout/"
        "stderr in generated chunk sizes (beyond the 64 KiB pipe buffer), exit codes 0-255, self-signals (SEGV, ABRT, "
        "TERM, INT, KILL), closing stdout/stderr early and living on, lane release over the control descriptor before "
        "or after output (and with a wrong task id), printing selected environment variables, ignoring SIGINT -- plus "
        "non-existent and non-executable programs, launches made while the process has only 0-7 free file descriptors "
        "(pipe() or the spawn itself fails; one-lane queues only), explicit / inherited / colliding environments, and optionally "
        "cancelAllJobs() when the n-th job body starts. `qsim` (ThreadSanitizer build) drives the real queue and "
        "prints a totally ordered event log. Oracles: every job body ran exactly once before the queue was destroyed; "
        "never more bodies in flight than lanes; per launch exactly one completion, after its last output and after "
        "processFinished; status = Succeeded iff exit 0, Failed for non-zero exit / other fatal signal / spawn error, "
        "Cancelled for INT/KILL (with a cancellation: the scripted status or Cancelled); concatenated output equals "
        "the script's bytes in order (a prefix when cancelled); environment precedence LLBUILD_* > explicit > "
        "inherited base; no processStarted after cancelAllJobs() returned; no child left alive or zombie; no TSan "
        "report. Non-trivial = a run with more jobs than lanes and a launch whose output exceeds the pipe buffer or "
        "that released its lane; distinct = sha1 of the case.")
ASSUMPTIONS = ["in three quarters of the cases the client waits for every body and completion before destroying the queue, as the "
               "build engine does; in the rest the queue is destroyed right after the submits and its destructor must drain it",
               "interleavings are sampled, not owned; poll() failures are not injected",
               "a descriptor-starved launch may either fail as a spawn error (no output) or run normally, depending on how many descriptors it needs"]

CHILD = os.path.join(BIN["rel"], "childsim")
ST_OK, ST_FAILED, ST_CANCELLED = 0, 1, 2


def budget(tier):
    return 4000 if tier == "quick" else 100000


_TIER = {"v": "quick"}


@st.composite
def behaviour(draw):
    ops = []
    n = draw(st.integers(0, 5))
    for _ in range(n):
        k = draw(st.sampled_from(["o", "o", "e", "s", "c", "r", "R", "p", "i"]))
        if k in "oe":
            size = draw(st.sampled_from([0, 1, 100, 4096, 4097, 65536, 70000, 300000]) | st.integers(0, 3000))
            ch = draw(st.sampled_from("abcxyz"))
            chunk = draw(st.sampled_from([0, 1 if size < 2000 else 512, 100, 4096, 65536]))
            ops.append("%s%d:%s:%d" % (k, size, ch, chunk))
        elif k == "s":
            ops.append("s%d" % draw(st.sampled_from([0, 1, 5, 20])))
        elif k == "c":
            ops.append("c%d" % draw(st.sampled_from([1, 2])))
        elif k == "p":
            ops.append("p" + draw(st.sampled_from(["LLBUILD_LANE_ID", "FOO", "VERIF_BASE", "BOTH", "LLBUILD_BUILD_ID", "NOPE"])))
        else:
            ops.append(k)
    end = draw(st.sampled_from(["x0", "x0", "x0", "x1", "x3", "x255", "k11", "k6", "k15", "k2", "k9", ""]))
    if end:
        ops.append(end)
    return ",".join(ops) or "x0"


@st.composite
def case(draw):
    tier = _TIER["v"]
    kind = draw(st.sampled_from(["lane", "lane", "lane", "serial"]))
    lanes = 1 if kind == "serial" else draw(st.integers(1, 8))
    n = draw(st.integers(1, 40 if tier == "quick" else 200))
    # descriptor starvation (pipe() / spawn failing for lack of descriptors) only where job bodies cannot
    # overlap, so that the starved launch is the only one affected
    starve = lanes == 1 and draw(st.integers(0, 2)) == 0
    jobs = []
    parent_of = {}
    for i in range(n):
        j = {"id": "J%d" % i, "prio": draw(st.sampled_from(["n", "n", "h"])),
             "dur": draw(st.sampled_from([0, 0, 100, 1000, 5000])), "adds": [], "proc": None}
        if draw(st.integers(0, 9)) < 4:
            j["proc"] = draw(behaviour())
            j["exe"] = draw(st.sampled_from(["-child"] * 8 + ["/nonexistent/prog", "/etc/passwd"]))
            env = {}
            if draw(st.booleans()):
                env["FOO"] = "explicit"
            if draw(st.integers(0, 2)) == 0:
                env["BOTH"] = "explicit"
            if draw(st.integers(0, 3)) == 0:
                env["LLBUILD_LANE_ID"] = "bogus"
            j["env"] = env
            j["inherit"] = draw(st.booleans())
            j["control"] = draw(st.integers(0, 4)) != 0
            j["interrupt"] = draw(st.integers(0, 5)) != 0
            if starve and draw(st.integers(0, 2)) == 0:
                j["fds"] = draw(st.integers(0, 7))
        jobs.append(j)
    # each job is submitted exactly once: at top level or by one earlier job
    top = []
    for i, j in enumerate(jobs):
        if i > 0 and draw(st.integers(0, 3)) == 0:
            p = draw(st.integers(0, i - 1))
            jobs[p]["adds"].append(j["id"])
        else:
            top.append(j["id"])
    # one child in a few cancel-bound cases lives much longer than the kill grace period (1 s under LLBUILD_TEST):
    # whether it honours SIGINT, ignores it, or was launched as not safely interruptible, and whether or not it
    # released its lane, it has to be gone (Cancelled) long before its 3 s are over
    long_job = None
    procs = [j for j in jobs if j["proc"] is not None and j.get("exe") == "-child" and j.get("fds") is None]
    if procs and draw(st.integers(0, 5)) == 0:
        lj = draw(st.sampled_from(procs))
        pre = draw(st.sampled_from(["", "i,", "r,", "i,r,", "r,i,"]))
        lj["proc"] = pre + "s3000,x0"
        lj["control"] = True
        lj["interrupt"] = draw(st.booleans())
        # sometimes attached to the console (as the jobs of Ninja's console pool are); it prints nothing
        lj["console"] = draw(st.integers(0, 2)) == 0
        long_job = lj["id"]
    nowait = draw(st.integers(0, 3)) == 0
    if nowait:
        # every job is submitted before the destructor starts (submitting to a queue whose destruction is
        # under way is not a use the interface documents)
        for j in jobs:
            j["adds"] = []
        top = [j["id"] for j in jobs]
    cancel = draw(st.sampled_from([None, None, None, 1, 2, 5, 10]))
    if long_job is not None and cancel is None:
        cancel = draw(st.sampled_from([1, 2, 5, 10]))       # (the long child only appears in cancelled runs)
    if cancel is not None and cancel > n:
        cancel = n
    # cancellation from a thread of its own at a generated moment (instead of from a job body), racing launches
    # whose environment takes a while to form
    cancel_usec = None
    if cancel is None and long_job is None and draw(st.integers(0, 5)) == 0:
        cancel_usec = draw(st.sampled_from([0, 100, 300, 1000, 3000, 10000]))
        for j in jobs:
            if j["proc"] is not None and draw(st.booleans()):
                j["bigenv"] = draw(st.sampled_from([2000, 20000]))
    return {"kind": kind, "lanes": lanes, "alg": draw(st.sampled_from(["fifo", "prio"])), "jobs": jobs, "top": top,
            "cancel_usec": cancel_usec,
            "cancel": cancel, "long_job": long_job,
            # destroy the queue right after the submits: its destructor has to drain what is still queued
            "nowait": nowait}


def strategy(tier):
    _TIER["v"] = tier
    return case()


def script_of(c):
    L = ["queue kind=%s lanes=%d alg=%s" % (c["kind"], c["lanes"], c["alg"])]
    for j in c["jobs"]:
        line = "job %s prio=%s dur=%d adds=%s" % (j["id"], j["prio"], j["dur"], ";".join(j["adds"]) or "-")
        if j["proc"] is not None:
            line += " proc=%s exe=%s env=%s inherit=%d control=%d interrupt=%d" % (
                j["proc"], j["exe"], ";".join("%s=%s" % kv for kv in sorted(j["env"].items())) or "-",
                int(j["inherit"]), int(j["control"]), int(j["interrupt"]))
            if j.get("fds") is not None:
                line += " fds=%d" % j["fds"]
            if j.get("console"):
                line += " console=1"
            if j.get("bigenv"):
                line += " bigenv=%d" % j["bigenv"]
        L.append(line)
    for t in c["top"]:
        L.append("submit " + t)
    if c["cancel"]:
        L.append("cancel jobs=%d" % c["cancel"])
    elif c.get("cancel_usec") is not None:
        L.append("cancel usec=%d" % c["cancel_usec"])
    if c.get("nowait"):
        L.append("nowait")
    L.append("end")
    return "\n".join(L) + "\n"


def expected_output(j, lane):
    """-> (list of segments, each ('bytes', data) or ('env', name)), final fate"""
    out = bytearray()
    closed = set()
    checks = []
    fate = ("exit", 0)
    released = False
    for op in j["proc"].split(","):
        if not op:
            continue
        k = op[0]
        if k in "oe":
            size, ch, _ = op[1:].split(":")
            fd = 1 if k == "o" else 2
            if fd not in closed:
                out += ch.encode() * int(size)
        elif k == "c":
            closed.add(int(op[1:]))
        elif k == "p":
            name = op[1:]
            if 1 in closed:
                continue
            if name == "LLBUILD_LANE_ID":
                val = str(lane)
            elif name == "LLBUILD_BUILD_ID":
                val = None
            elif name == "FOO":
                val = j["env"].get("FOO") or "<unset>"
            elif name == "BOTH":
                val = j["env"].get("BOTH") or ("base" if j["inherit"] else "<unset>")
            elif name == "VERIF_BASE":
                val = "base" if j["inherit"] else "<unset>"
            else:
                val = "<unset>"
            if val is None:
                checks.append(len(out))
                out += b"LLBUILD_BUILD_ID=\x00"       # placeholder: digits follow
            else:
                out += ("%s=%s\n" % (name, val)).encode()
        elif k == "r" and j["control"]:
            released = True
        elif k == "x":
            fate = ("exit", int(op[1:]))
            break
        elif k == "k":
            fate = ("signal", int(op[1:]))
            if int(op[1:]) == 2 and "i" in [o for o in j["proc"].split(",")][:j["proc"].split(",").index(op)]:
                fate = ("exit", 0)      # SIGINT ignored: raise() returns, script continues
                continue
            break
    return bytes(out), fate, released


def decode_output(chunks):
    out = bytearray()
    for c in chunks:
        for run in c.split("."):
            if not run:
                continue
            b, _, n = run.partition("*")
            out += bytes([int(b, 16)]) * int(n)
    return bytes(out)


def match_output(got, want):
    """want may contain the placeholder 'LLBUILD_BUILD_ID=\\0' standing for digits + newline."""
    pat = re.escape(want).replace(re.escape(b"LLBUILD_BUILD_ID=\x00"), b"LLBUILD_BUILD_ID=[0-9]+\n")
    return re.fullmatch(pat, got, re.S) is not None


def is_prefix_output(got, want):
    if b"\x00" not in want:
        return want.startswith(got)
    # compare up to the first placeholder only
    head = want.split(b"LLBUILD_BUILD_ID=\x00")[0]
    return got.startswith(head) or head.startswith(got)


def run_case(case, ctx, verbose=False):
    env = dict(os.environ)
    env.update({"VERIF_BASE": "base", "BOTH": "base", "TSAN_OPTIONS": "halt_on_error=1 exitcode=66",
                "LLBUILD_TEST": "1"})
    env.pop("FOO", None)
    try:
        p = subprocess.run([os.path.join(BIN["tsan"], "qsim"), CHILD], input=script_of(case).encode(),
                           stdout=subprocess.PIPE, stderr=subprocess.PIPE, env=env, timeout=180, cwd=ctx.dir)
    except subprocess.TimeoutExpired as ex:
        return Outcome("qsim hung (watchdog 180 s); last events: %s" % (ex.stdout or b"")[-400:].decode("latin-1"))
    err = p.stderr.decode("latin-1")
    if "ThreadSanitizer" in err:
        return Outcome("ThreadSanitizer report:\n" + err[:1800])
    if p.returncode != 0:
        return Outcome("qsim exited %s: %s" % (p.returncode, err[-600:]))
    events = []
    for line in p.stdout.decode("latin-1").splitlines():
        t = line.split(" ")
        events.append((int(t[0]), t[1], t[2:]))
    byid = {j["id"]: j for j in case["jobs"]}
    starts, ends, lanes_of = {}, {}, {}
    launches, started, outputs, finished, completions = {}, {}, {}, {}, {}
    cancel_ret = None
    destroyed = None
    children = None
    for seq, tag, a in events:
        if tag == "job-start":
            if a[0] in starts:
                return Outcome("job %s body ran twice" % a[0])
            starts[a[0]] = seq
            lanes_of[a[0]] = int(a[1].split("=")[1])
        elif tag == "job-end":
            ends[a[0]] = seq
        elif tag == "launch":
            launches[a[0]] = seq
        elif tag == "proc-started":
            started[a[0]] = seq
        elif tag == "proc-output":
            outputs.setdefault(a[0], []).append((seq, a[1]))
        elif tag == "proc-finished":
            finished[a[0]] = (seq, int(a[1]), int(a[2]))
        elif tag == "completion":
            if a[0] in completions:
                return Outcome("process of job %s completed twice" % a[0])
            completions[a[0]] = (seq, int(a[1]), int(a[2]))
        elif tag == "cancel-returned":
            cancel_ret = seq
        elif tag == "queue-destroyed":
            destroyed = seq
        elif tag == "children":
            children = a[0]
    if destroyed is None:
        return Outcome("queue destructor did not return")
    for j in case["jobs"]:
        if j["id"] not in starts or j["id"] not in ends:
            return Outcome("job %s was submitted but its body %s" % (j["id"], "never ran" if j["id"] not in starts else "never finished"))
        if ends[j["id"]] > destroyed:
            return Outcome("job %s finished after the queue was destroyed" % j["id"])
    # concurrency bound
    pts = sorted([(s, 1) for s in starts.values()] + [(e, -1) for e in ends.values()])
    cur = mx = 0
    for _, d in pts:
        cur += d
        mx = max(mx, cur)
    if mx > case["lanes"]:
        return Outcome("%d job bodies in flight with %d lanes" % (mx, case["lanes"]))
    cancelled_run = (case["cancel"] is not None or case.get("cancel_usec") is not None) and cancel_ret is not None
    big = False
    released_any = False
    starved = False
    for jid, lseq in launches.items():
        j = byid[jid]
        if jid not in completions:
            return Outcome("process of job %s never completed" % jid)
        cseq, status, code = completions[jid]
        outs = outputs.get(jid, [])
        if outs and outs[-1][0] > cseq:
            return Outcome("job %s: output delivered after the completion callback" % jid)
        if jid in finished and finished[jid][0] > cseq:
            return Outcome("job %s: processFinished after the completion callback" % jid)
        if cancel_ret is not None and jid in started and started[jid] > cancel_ret:
            return Outcome("job %s: process started after cancelAllJobs() returned" % jid)
        got = decode_output([o for _, o in outs])
        if j["exe"] != "-child":
            if status != ST_FAILED and not (cancelled_run and status == ST_CANCELLED):
                return Outcome("job %s: spawning %s reported status %d" % (jid, j["exe"], status))
            continue
        if j.get("fds") is not None and status == ST_FAILED and not got:
            starved = True      # the launch itself failed for lack of descriptors: a spawn error, reported once
            continue
        # (running AT the cancellation: started before it, completed after it returned)
        if jid == case.get("long_job") and cancel_ret is not None and jid in started and started[jid] < cancel_ret \
                and cseq > cancel_ret and status != ST_CANCELLED:
            return Outcome("job %s: its child (script %r, interrupt=%s) was running when cancelAllJobs() returned and "
                           "sleeps for 3 s, yet it was left to finish on its own (status %d): it was neither "
                           "interrupted nor killed after the grace period" % (jid, j["proc"], j["interrupt"], status))
        want, fate, released = expected_output(j, lanes_of[jid])
        released_any = released_any or released
        big = big or len(want) > 65536
        if fate[0] == "exit":
            exp = ST_OK if fate[1] == 0 else ST_FAILED
        else:
            exp = ST_CANCELLED if fate[1] in (2, 9) else ST_FAILED
        if status != exp and not (cancelled_run and status == ST_CANCELLED):
            return Outcome("job %s: child fate %s but completion status %d (exit code %d); script %r" % (
                jid, fate, status, code, j["proc"]))
        if status == exp and not cancelled_run or (status == exp and jid in started and exp != ST_CANCELLED):
            if not match_output(got, want):
                return Outcome("job %s: output differs from the script %r:\n  got  %r...(%d bytes)\n  want %r...(%d bytes)" % (
                    jid, j["proc"], got[:80], len(got), want[:80], len(want)))
        elif not is_prefix_output(got, want):
            return Outcome("job %s (cancelled): output %r... is not a prefix of the scripted output" % (jid, got[:80]))
    if children != "none":
        return Outcome("after the queue was destroyed a child process is still %s" % children)
    nt = len(case["jobs"]) > case["lanes"] and (big or released_any)
    cls = [case["kind"]]
    if case.get("nowait"):
        cls.append("destroyed-while-busy")
    if cancelled_run:
        cls.append("cancel")
    if big:
        cls.append("output>pipe-buffer")
    if released_any:
        cls.append("lane-release")
    if starved:
        cls.append("descriptor-starved-launch")
    if case.get("cancel_usec") is not None:
        cls.append("cancel-from-another-thread")
    if case.get("long_job") and cancelled_run:
        cls.append("long-lived-child-at-cancel")
    if any(j.get("exe", "-child") != "-child" for j in case["jobs"] if j["proc"] is not None):
        cls.append("spawn-error")
    return Outcome(None, nontrivial=nt, classes=cls, detail={"jobs": len(case["jobs"]), "launches": len(launches)})
