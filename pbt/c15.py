"""C15 -- keys and values encode canonically and decode losslessly."""
import copy

from hypothesis import strategies as st

import common
from common import Outcome
import val

ID = "C15"
LEVEL = "exploration"
FLAVOURS = ["asan"]
TARGETS = ["valtool"]
RULE = ("Hypothesis generates a description of a BuildKey (every constructor; names/paths/task data over all 256 byte "
        "values, NUL-free filter lists of 0-5 entries) or of a BuildValue (every factory; 1-6 outputs where the "
        "factory takes them; arbitrary FileInfo fields incl. checksum; signatures; string lists of 0-8 NUL-free "
        "entries) plus ONE generated single-field perturbation of it (a byte changed, a boundary moved between "
        "adjacent strings or between name and payload, an output added, a field changed, the kind changed). "
        "valtool (ASan build) constructs, encodes and decodes through the real classes. Oracles: decode(encode(x)) "
        "read through every accessor equals x; encoding the same description again, and through copy-construction, "
        "move-construction and move-assignment, gives identical bytes; the perturbed description encodes to "
        "different bytes; kind tags are mutually inverse and pairwise distinct; the first byte of a value is its "
        "kind. Non-trivial = a value with >= 2 outputs or a string list >= 2, or a key of a length-prefixed kind "
        "with non-empty filters or payload; distinct = sha1 of the case.")
ASSUMPTIONS = ["StringList entries are NUL-free and ExistingInput infos are not the all-zero 'missing' record "
               "(both are asserted preconditions of the constructors)"]

KEY_SIMPLE = [0, 2, 6, 7, 8]          # Command, DirectoryContents, Node, Stat, Target
KEY_FILTERED = [3, 4, 5]              # FilteredDirectoryContents, DirectoryTreeSignature, ...StructureSignature
KEY_CUSTOM = 1
V_INFO1 = [2]                         # ExistingInput
V_INFON = [10, 17]                    # SuccessfulCommand, ...WithOutputSignature
V_DIRCONTENTS = 4
V_SIG = [5, 6, 17]
V_STRS = [4, 7, 16]
V_PLAIN = [0, 1, 3, 8, 9, 11, 12, 13, 14, 15]


def budget(tier):
    return 150000 if tier == "quick" else 3000000


# (lengths around the byte boundaries of the 32-bit length prefix too: 127/128/255/256 and one beyond 2^15)
_long = st.sampled_from([127, 128, 129, 255, 256, 300, 40000]).flatmap(
    lambda n: st.tuples(st.integers(0, 255), st.integers(0, 255)).map(lambda ab: bytes([ab[0]]) * (n - 1) + bytes([ab[1]])))
_bytes = st.binary(min_size=0, max_size=12) | st.sampled_from([b"", b"\x00", b"a\x00b", b"\xff" * 3, b"/a/b c"]) | \
    st.integers(0, 7).flatmap(lambda k: _long if k == 3 else st.binary(min_size=0, max_size=12))
_nonul = st.binary(min_size=0, max_size=8).map(lambda b: b.replace(b"\x00", b"\x01")) | st.sampled_from(
    [b"", b"a", b"ab", b"*.o", b"\xff"])
_u64 = st.sampled_from([0, 1, 2, 255, 256, 2**31, 2**32 - 1, 2**32, 2**63, 2**64 - 1]) | st.integers(0, 2**64 - 1)


@st.composite
def info(draw, nonmissing=False):
    fi = {"device": draw(_u64), "inode": draw(_u64), "mode": draw(_u64), "size": draw(_u64), "sec": draw(_u64),
          "nsec": draw(_u64), "ck": draw(st.sampled_from([b"", b"\x01", b"\xff" * 32]) | st.binary(min_size=32, max_size=32)).hex()}
    if nonmissing and not any(fi[k] for k in ("device", "inode", "mode", "size", "sec", "nsec")):
        fi["inode"] = 1
    return fi


@st.composite
def key_desc(draw):
    kind = draw(st.integers(0, 8))
    d = {"t": "key", "kind": kind, "name": draw(_bytes).hex(), "data": "", "filters": []}
    if kind == KEY_CUSTOM:
        d["data"] = draw(_bytes).hex()
    if kind in KEY_FILTERED:
        d["filters"] = [b.hex() for b in draw(st.lists(_nonul, min_size=0, max_size=5))]
    return d


@st.composite
def value_desc(draw):
    kind = draw(st.integers(0, 17))
    d = {"t": "value", "kind": kind, "sig": 0, "infos": [], "strs": []}
    if kind in V_SIG:
        d["sig"] = draw(_u64)
    if kind in V_INFO1:
        d["infos"] = [draw(info(nonmissing=True))]
    elif kind == V_DIRCONTENTS:
        d["infos"] = [draw(info())]
    elif kind in V_INFON:
        d["infos"] = draw(st.lists(info(), min_size=1, max_size=6))
    if kind in V_STRS:
        d["strs"] = [b.hex() for b in draw(st.lists(_nonul, min_size=0, max_size=8))]
    return d


def perturb(draw, d):
    """A description that differs from d in exactly one respect (semantically different)."""
    p = copy.deepcopy(d)

    def flip(hexs):
        b = bytearray(bytes.fromhex(hexs))
        if not b:
            return "41"
        i = draw(st.integers(0, len(b) - 1))
        b[i] ^= 1 << draw(st.integers(0, 7))
        return bytes(b).hex()

    if d["t"] == "key":
        opts = ["name", "kind"]
        if d["kind"] == KEY_CUSTOM:
            opts += ["data", "boundary"]
        if d["kind"] in KEY_FILTERED:
            opts += ["filter", "filter-boundary", "filter-add", "name-filter-boundary"]
        o = draw(st.sampled_from(opts))
        if o == "name":
            p["name"] = flip(d["name"])
        elif o == "kind":
            group = KEY_SIMPLE if d["kind"] in KEY_SIMPLE else KEY_FILTERED if d["kind"] in KEY_FILTERED else None
            if group is None:
                p["name"] = flip(d["name"])
            else:
                p["kind"] = draw(st.sampled_from([k for k in group if k != d["kind"]]))
        elif o == "data":
            p["data"] = flip(d["data"])
        elif o == "boundary":
            whole = bytes.fromhex(d["name"]) + bytes.fromhex(d["data"])
            cut = len(bytes.fromhex(d["name"]))
            cuts = [c for c in range(len(whole) + 1) if c != cut]
            if not cuts:
                p["name"] = flip(d["name"])
            else:
                c = draw(st.sampled_from(cuts))
                p["name"], p["data"] = whole[:c].hex(), whole[c:].hex()
        elif o == "filter":
            if d["filters"]:
                i = draw(st.integers(0, len(d["filters"]) - 1))
                nb = bytes.fromhex(flip(d["filters"][i])).replace(b"\x00", b"\x01")
                if nb.hex() == d["filters"][i]:
                    nb += b"x"
                p["filters"][i] = nb.hex()
            else:
                p["filters"] = ["61"]
        elif o == "filter-add":
            p["filters"] = d["filters"] + [""]
        elif o == "filter-boundary":
            fl = [bytes.fromhex(f) for f in d["filters"]]
            cand = [i for i in range(len(fl) - 1) if fl[i]]
            if cand:
                i = draw(st.sampled_from(cand))
                fl[i + 1] = fl[i][-1:] + fl[i + 1]
                fl[i] = fl[i][:-1]
                p["filters"] = [f.hex() for f in fl]
            else:
                p["filters"] = d["filters"] + ["62"]
        elif o == "name-filter-boundary":
            nm = bytes.fromhex(d["name"])
            if nm and nm[-1] != 0 and d["filters"]:
                p["name"] = nm[:-1].hex()
                p["filters"] = [(nm[-1:] + bytes.fromhex(d["filters"][0])).hex()] + d["filters"][1:]
            else:
                p["name"] = (nm + b"z").hex()
        return p
    # value
    k = d["kind"]
    opts = ["kind"]
    if d["infos"]:
        opts += ["info-field"] * 3
        if k in V_INFON:
            opts += ["info-add", "info-swap"]
    if k in V_SIG:
        opts += ["sig"]
    if k in V_STRS:
        opts += ["str", "str-add", "str-boundary"]
    o = draw(st.sampled_from(opts))
    if o == "kind":
        groups = [V_PLAIN, [10], [17], [5, 6], [7, 16], [2], [4]]
        g = next(g for g in groups if k in g)
        others = [x for x in g if x != k]
        if others:
            p["kind"] = draw(st.sampled_from(others))
        elif k == 10:
            p["kind"] = 17
        elif k == 17:
            p["kind"] = 10
            p["sig"] = 0
        elif k == 2:
            p["infos"][0]["inode"] = (d["infos"][0]["inode"] + 1) % 2**64 or 1
        else:
            p["infos"][0]["size"] = (d["infos"][0]["size"] + 1) % 2**64
    elif o == "info-field":
        i = draw(st.integers(0, len(d["infos"]) - 1))
        f = draw(st.sampled_from(["device", "inode", "mode", "size", "sec", "nsec", "ck"]))
        if f == "ck":
            ck = bytes.fromhex(d["infos"][i]["ck"]).ljust(32, b"\x00")[:32]
            j = draw(st.integers(0, 31))
            ck = ck[:j] + bytes([ck[j] ^ (1 << draw(st.integers(0, 7)))]) + ck[j + 1:]
            p["infos"][i]["ck"] = ck.hex()
        else:
            p["infos"][i][f] = d["infos"][i][f] ^ (1 << draw(st.integers(0, 63)))
        if k == 2 and not any(p["infos"][0][x] for x in ("device", "inode", "mode", "size", "sec", "nsec")):
            p["infos"][0]["mode"] = 7
            if p["infos"][0] == d["infos"][0]:
                p["infos"][0]["mode"] = 9
    elif o == "info-add":
        p["infos"] = d["infos"] + [draw(info())]
    elif o == "info-swap":
        if len(d["infos"]) >= 2 and d["infos"][0] != d["infos"][1] and norm_info(d["infos"][0]) != norm_info(d["infos"][1]):
            p["infos"][0], p["infos"][1] = d["infos"][1], d["infos"][0]
        else:
            p["infos"] = d["infos"] + [draw(info())]
    elif o == "sig":
        p["sig"] = d["sig"] ^ (1 << draw(st.integers(0, 63)))
    elif o == "str":
        if d["strs"]:
            i = draw(st.integers(0, len(d["strs"]) - 1))
            p["strs"][i] = (bytes.fromhex(d["strs"][i]) + b"q").hex()
        else:
            p["strs"] = [""]
    elif o == "str-add":
        p["strs"] = d["strs"] + [""]
    elif o == "str-boundary":
        sl = [bytes.fromhex(f) for f in d["strs"]]
        cand = [i for i in range(len(sl) - 1) if sl[i]]
        if cand:
            i = draw(st.sampled_from(cand))
            sl[i + 1] = sl[i][-1:] + sl[i + 1]
            sl[i] = sl[i][:-1]
            p["strs"] = [f.hex() for f in sl]
        else:
            p["strs"] = d["strs"] + ["63"]
    return p


@st.composite
def case(draw):
    d = draw(st.one_of(key_desc(), value_desc(), value_desc()))
    return {"x": d, "y": perturb(draw, d)}


def strategy(tier):
    return case()


def norm_info(fi):
    ck = bytes.fromhex(fi["ck"]).ljust(32, b"\x00")[:32]
    return "%d:%d:%d:%d:%d:%d:%s" % (fi["device"], fi["inode"], fi["mode"], fi["size"], fi["sec"], fi["nsec"], ck.hex())


def enc(d, variant="plain"):
    if d["t"] == "key":
        return val.ask("keyenc %d %s %s %s" % (d["kind"], d["name"] or "-", d["data"] or "-",
                                              val.hexlist([bytes.fromhex(f) for f in d["filters"]])))
    infos = " ".join(norm_info(fi).rsplit(":", 1)[0] + ":" + (bytes.fromhex(fi["ck"]).ljust(32, b"\x00")[:32].hex())
                     for fi in d["infos"])
    return val.ask("valenc %s %d %d %d %s%s" % (variant, d["kind"], d["sig"], len(d["infos"]),
                                                infos + " " if infos else "",
                                                val.hexlist([bytes.fromhex(s) for s in d["strs"]])))


def val_args(d):
    infos = " ".join(norm_info(fi).rsplit(":", 1)[0] + ":" + (bytes.fromhex(fi["ck"]).ljust(32, b"\x00")[:32].hex())
                     for fi in d["infos"])
    return "%d %d %d %s%s" % (d["kind"], d["sig"], len(d["infos"]), infos + " " if infos else "",
                             val.hexlist([bytes.fromhex(s) for s in d["strs"]]))


def expected_dump(d):
    if d["t"] == "key":
        return "%d %s %s %s" % (d["kind"], d["name"] or "-", d["data"] or "-",
                                val.hexlist([bytes.fromhex(f) for f in d["filters"]]))
    infos = "".join(" " + norm_info(fi) for fi in d["infos"])
    return "%d %d %d%s %s" % (d["kind"], d["sig"], len(d["infos"]), infos,
                              val.hexlist([bytes.fromhex(s) for s in d["strs"]]))


_kind_checked = {}


def run_case(case, ctx, verbose=False):
    x, y = case["x"], case["y"]
    try:
        if not _kind_checked:
            rep = val.ask("kindids").split()
            ids = {}
            for ent in rep:
                k, c, back = (int(v) for v in ent.split(":"))
                if back != k:
                    return Outcome("kindForIdentifier(identifierForKind(%d)) = %d" % (k, back))
                if c in ids:
                    return Outcome("key kinds %d and %d share the tag %r" % (ids[c], k, chr(c)))
                ids[c] = k
            _kind_checked["ok"] = True
        ex = enc(x)
        dec = val.ask(("keydec " if x["t"] == "key" else "valdec ") + ex)
        want = expected_dump(x)
        if dec != want:
            return Outcome("decode(encode(x)) != x:\n  x      = %s\n  decoded= %s\n  bytes  = %s" % (want, dec, ex))
        if enc(x) != ex:
            return Outcome("encoding the same %s twice gives different bytes" % x["t"])
        if x["t"] == "value":
            for variant in ("copy", "move", "assign"):
                e2 = enc(x, variant)
                if e2 != ex:
                    return Outcome("%s-constructed value encodes differently: %s vs %s" % (variant, e2, ex))
            if y["t"] == "value":
                # move-assigned over an object that already holds ANOTHER value (y): nothing of y may survive
                e3 = val.ask("valover %s %s" % (val_args(y), val_args(x)))
                if e3 != ex:
                    return Outcome("a value move-assigned over an object holding another value encodes differently:\n  "
                                   "held   = %s\n  assigned = %s\n  bytes  = %s\n  want   = %s" % (
                                       expected_dump(y), want, e3, ex))
                e4 = val.ask("valover %s %s" % (val_args(x), val_args(y)))
                if e4 != enc(y):
                    return Outcome("a value move-assigned over an object holding another value encodes differently:\n  "
                                   "held   = %s\n  assigned = %s\n  bytes  = %s" % (want, expected_dump(y), e4))
            if int(ex[:2], 16) != x["kind"]:
                return Outcome("first byte of the encoding %s is not the kind %d" % (ex[:2], x["kind"]))
        else:
            kb = bytes.fromhex(ex)
            # the tag must decode back to this kind (distinct kinds never share a tag)
            pass
        if expected_dump(y) != want:
            ey = enc(y)
            if ey == ex:
                return Outcome("two different %ss encode to the same bytes %s:\n  x = %s\n  y = %s" % (
                    x["t"], ex, want, expected_dump(y)))
    except val.Died as e:
        return Outcome(e.msg)
    nt = False
    cls = [x["t"]]
    if x["t"] == "value":
        nt = len(x["infos"]) >= 2 or len(x["strs"]) >= 2
    else:
        nt = (x["kind"] in KEY_FILTERED and bool(x["filters"])) or (x["kind"] == KEY_CUSTOM and bool(x["data"]))
    if nt:
        cls.append("nontrivial-" + x["t"])
    return Outcome(None, nontrivial=nt, classes=cls)
