#!/bin/bash
# usage: save_seed.sh <id> <seed_out dir> <props,comma> <needs> <caught,comma> <missed-or-note>
# Stores a confirmed independently written change under seeded/<id>/ (patch.diff, demonstration, notes, meta.json).
id=$1; src=$2; prop=$3; needs=$4; caught=$5; missed=$6
cd "$(dirname "$0")/.." || exit 2
mkdir -p seeded/$id
cp "$src/patch.diff" seeded/$id/ || exit 2
[ -f "$src/patch-rebased.diff" ] && cp "$src/patch-rebased.diff" seeded/$id/
for f in run_demo.sh demo.cpp demo.sh demo.py notes.md e2e.py e2e.sh e2e_demo.sh build.llbuild; do cp "$src/$f" seeded/$id/ 2>/dev/null; done
python3 - "$id" "$prop" "$needs" "$caught" "$missed" <<'PY'
import json,sys
id,prop,needs,caught,missed=sys.argv[1:6]
json.dump({"id":id,"breaks_property":prop.split(","),"needs_to_manifest":needs,
 "written_by":"independent sub-agent given only the property text and a scratch worktree",
 "confirmed":"tools/confirm_seed.sh in the scratch worktree: patch applies to HEAD, 83/83 gtest cases pass with it, demonstration exits non-zero with it and 0 without",
 "checks_run":"tools/try_seed.sh <patch> <checks> (applied to /repo, or with TRY_IN_WORKTREE=1 to a scratch worktree the checks are pointed at through VERIF_REPO; ./check <ID> quick; reverted)",
 "caught_by_quick":caught.split(",") if caught else [], "not_caught_by":missed},
 open("seeded/%s/meta.json"%id,"w"),indent=1)
PY
