#!/bin/bash
# usage: confirm_seed.sh <worktree> [<seed_out dir>]  -- re-verifies a seeded change in its scratch worktree:
# patch applies to clean HEAD, builds, the 83 tests pass with it, the demo fails with it and passes without.
wt="$1"; out="${2:-$wt/seed_out}"
set -u
cd "$wt" || exit 2
git checkout -q -- . 2>/dev/null
cmake -G Ninja -S "$wt" -B "$wt/_build_orig" -DCMAKE_CXX_COMPILER=clang++-16 -DCMAKE_C_COMPILER=clang-16 -DCMAKE_BUILD_TYPE=RelWithDebInfo -DCMAKE_CXX_FLAGS=-Wno-error -DBUILD_TESTING=ON >/dev/null 2>&1
cmake --build "$wt/_build_orig" -j12 >/dev/null 2>&1 || { echo "orig build failed"; exit 2; }
(sh "$out/run_demo.sh" "$wt/_build_orig" >/tmp/confirm_orig.log 2>&1); r0=$?
git apply "$out/patch.diff" || { echo "patch does not apply"; exit 2; }
cmake -G Ninja -S "$wt" -B "$wt/_build" -DCMAKE_CXX_COMPILER=clang++-16 -DCMAKE_C_COMPILER=clang-16 -DCMAKE_BUILD_TYPE=RelWithDebInfo -DCMAKE_CXX_FLAGS=-Wno-error -DBUILD_TESTING=ON >/dev/null 2>&1
cmake --build "$wt/_build" -j12 >/dev/null 2>&1 || { echo "patched build failed"; exit 2; }
total=0; fail=0
for t in BasicTests BuildSystemTests CAPITests CASTests CoreTests EvoTests NinjaTests; do
  o=$("$wt/_build/bin/$t" 2>&1); r=$?; n=$(echo "$o" | grep -c '^\[       OK \]'); total=$((total+n)); [ $r -ne 0 ] && fail=1
done
(sh "$out/run_demo.sh" "$wt/_build" >/tmp/confirm_patched.log 2>&1); r1=$?
echo "tests_passed_with_change=$total any_test_binary_failed=$fail demo_exit_without_change=$r0 demo_exit_with_change=$r1"
git checkout -q -- .
[ "$total" -ge 83 ] && [ $fail -eq 0 ] && [ $r0 -eq 0 ] && [ $r1 -ne 0 ]
