#!/bin/bash
# Runs every registered check of the given tier (default quick) and prints a summary.
tier="${1:-quick}"
cd "$(dirname "$0")/.."
rc=0
for id in $(python3 -c "import json;print(' '.join(c['property_id'] for c in json.load(open('MANIFEST.json'))['checks']))"); do
  s=$(date +%s)
  out=$(./check "$id" "$tier" 2>&1); r=$?
  e=$(date +%s)
  echo "== $id exit=$r $((e-s))s"
  echo "$out" | tail -3 | cut -c1-400
  [ $r -ne 0 ] && rc=1
done
exit $rc
