#!/usr/bin/env python3
"""Mirror /repo's working tree and (re)build the requested flavours.

usage: build.py [rel] [asan] [tsan] [--target T ...]

1. rsync --checksum of /repo (minus .git, _build) into /verif/build/src: files
   are rewritten (new mtime) only when their content differs, so the incremental
   ninja build is exact even after a restore that resets timestamps.
2. cmake configure (once) + cmake --build of /verif/harness for each flavour
   under /verif/build/<flavour>, serialised by an flock.
"""
import fcntl
import os
import subprocess
import sys
import time

VERIF = os.path.dirname(os.path.dirname(os.path.abspath(__file__)))
REPO = os.environ.get("VERIF_REPO") or "/repo"     # (an empty value means "not set")
if not os.path.isfile(os.path.join(REPO, "CMakeLists.txt")) or not os.path.isdir(os.path.join(REPO, "lib", "Core")):
    sys.stderr.write("build.py: %r is not an llbuild source tree\n" % REPO)
    sys.exit(2)
BUILD = os.path.join(VERIF, "build")
SRC = os.path.join(BUILD, "src")

COMMON = "-O1 -g -fno-omit-frame-pointer -Wno-error -Wno-documentation -Wno-unused-command-line-argument"
FLAVOURS = {
    "rel": COMMON,
    "asan": COMMON + " -fsanitize=address,undefined,fuzzer-no-link -fno-sanitize-recover=undefined -fno-sanitize=vptr,function,nonnull-attribute",
    "tsan": COMMON + " -fsanitize=thread",
}
LDFLAGS = {
    "rel": "",
    "asan": "-fsanitize=address,undefined",
    "tsan": "-fsanitize=thread",
}


def run(cmd, **kw):
    r = subprocess.run(cmd, stdout=subprocess.PIPE, stderr=subprocess.STDOUT, text=True, **kw)
    if r.returncode != 0:
        sys.stderr.write("BUILD FAILED: %s\n%s\n" % (" ".join(cmd), r.stdout[-6000:]))
        sys.exit(2)
    return r.stdout


def mirror():
    os.makedirs(SRC, exist_ok=True)
    # -a without -t: a file whose content differs is rewritten with the CURRENT time, so ninja rebuilds it even
    # when the new content carries an older timestamp than the objects (a restore, another worktree)
    run(["rsync", "-rlpgoD", "--checksum", "--delete", "--exclude=/.git", "--exclude=/_build",
         "--exclude=/.build", REPO + "/", SRC + "/"])


def build(flavour, targets):
    bdir = os.path.join(BUILD, flavour)
    stamp = os.path.join(bdir, ".verif-flags")
    want = FLAVOURS[flavour] + "|" + LDFLAGS[flavour]
    if os.path.exists(bdir) and (not os.path.exists(stamp) or open(stamp).read() != want):
        import shutil
        shutil.rmtree(bdir)
    if not os.path.exists(os.path.join(bdir, "build.ninja")):
        os.makedirs(bdir, exist_ok=True)
        run(["cmake", "-G", "Ninja", "-S", os.path.join(VERIF, "harness"), "-B", bdir,
             "-DCMAKE_C_COMPILER=clang-14", "-DCMAKE_CXX_COMPILER=clang++-14",
             "-DCMAKE_BUILD_TYPE=", "-DLLBUILD_MIRROR=" + SRC, "-DVERIF_FLAVOUR=" + flavour,
             "-DCMAKE_CXX_FLAGS=" + FLAVOURS[flavour], "-DCMAKE_C_FLAGS=" + FLAVOURS[flavour],
             "-DCMAKE_EXE_LINKER_FLAGS=" + LDFLAGS[flavour],
             "-DCMAKE_SHARED_LINKER_FLAGS=" + LDFLAGS[flavour]])
        with open(stamp, "w") as f:
            f.write(want)
    cmd = ["cmake", "--build", bdir, "-j", str(os.cpu_count() or 8)]
    if targets:
        cmd += ["--target"] + targets
    run(cmd)


def main():
    args = sys.argv[1:]
    targets = []
    flavours = []
    i = 0
    while i < len(args):
        if args[i] == "--target":
            targets.append(args[i + 1]); i += 2
        else:
            flavours.append(args[i]); i += 1
    if not flavours:
        flavours = ["rel", "asan", "tsan"]
    os.makedirs(BUILD, exist_ok=True)
    t0 = time.time()
    with open(os.path.join(BUILD, ".lock"), "w") as lk:
        fcntl.flock(lk, fcntl.LOCK_EX)
        mirror()
        for f in flavours:
            build(f, targets)
    if os.environ.get("VERIF_VERBOSE"):
        sys.stderr.write("build %s ok in %.1fs\n" % (",".join(flavours), time.time() - t0))


if __name__ == "__main__":
    main()
