#!/usr/bin/env python3
"""Regenerates /verif/MANIFEST.json from the table below (single source of truth)."""
import json
import os
import subprocess

VERIF = os.path.dirname(os.path.dirname(os.path.abspath(__file__)))

# id -> (category, engine, technique, text, note, design_ref)
CHECKS = {
    "C01": ("exploration", "hypothesis+enginesim",
            "model-based PBT: generated graphs x histories vs from-scratch reference evaluator",
            "No counter-example among generated DAG programs x histories (mutate/tamper/redefine/restart/build under "
            "generated completion schedules): every returned value and every value handed to a task equals a "
            "from-scratch Python evaluation of the current external state.",
            "Trusts the ~150-line reference evaluator and the enginesim executor; values are small integers; "
            "cancelled histories belong to C05.", "DESIGN 2/C01"),
    "C02": ("exploration", "hypothesis+enginesim",
            "model-based PBT: shadow-ledger invariant over the engine callback trace",
            "No counter-example among generated histories: every task creation is unique per build, justified by the "
            "checker's own epoch ledger, reported with a true reason; immediate rebuilds execute nothing.",
            "Ledger derives 'changed' from completion values in the trace; interrupted rules may report any reason.",
            "DESIGN 2/C02"),
}

NOT_APPLICABLE = {
}


def main():
    src_commits = subprocess.run(
        ["git", "-C", "/repo", "log", "--format=%H %s", "--grep=^verif hooks"], stdout=subprocess.PIPE,
        text=True).stdout.strip().splitlines()
    checks = []
    for pid in sorted(CHECKS):
        cat, engine, technique, text, note, ref = CHECKS[pid]
        checks.append({
            "property_id": pid,
            "quick_cmd": "./check %s quick" % pid,
            "thorough_cmd": "./check %s thorough" % pid,
            "evidence_file": "/verif/evidence/%s.json" % pid,
            "replay_cmd_template": "./check %s --replay {path}" % pid,
            "engine": engine,
            "technique": technique,
            "level_claimed": {"category": cat, "text": text, "design_ref": ref},
            "level_note": note,
        })
    props = [json.loads(l)["id"] for l in open(os.path.join(VERIF, "properties.jsonl"))]
    na = []
    for pid in props:
        if pid not in CHECKS:
            na.append({"property_id": pid,
                       "reason": NOT_APPLICABLE.get(pid, "check not built yet in this session (planned, see DESIGN.md section 2)")})
    manifest = {
        "version": 1,
        "setup_cmd": "python3 tools/build.py rel asan tsan",
        "hooks": {
            "guard": "LLBUILD_VERIF",
            "enable": "tools/build.py mirrors /repo's working tree into build/src and builds it through "
                      "harness/CMakeLists.txt with add_compile_definitions(LLBUILD_VERIF) (clang-14; flavours rel/asan/tsan)",
            "baseline_off_cmd": "tools/baseline_off.sh",
            "source_commits": [c.split()[0] for c in src_commits],
            "add_only": True,
        },
        "engines": [
            {"name": "hypothesis+enginesim", "path": "pbt/ + harness/enginesim.cpp",
             "serves_properties": [p for p in sorted(CHECKS) if CHECKS[p][1] == "hypothesis+enginesim"],
             "kind_free_text": "Hypothesis 6.168 stateful-style history generation driving a C++ script executor "
                               "over core::BuildEngine as a sub-process per case; oracles in Python"},
        ],
        "checks": checks,
        "not_applicable": na,
        "notes": "All checks rebuild from /repo's working tree (rsync --checksum mirror + incremental ninja). "
                 "VERIF_SEED seeds every generator; VERIF_CASES overrides the case budget.",
    }
    with open(os.path.join(VERIF, "MANIFEST.json"), "w") as f:
        json.dump(manifest, f, indent=1)
    print("MANIFEST.json: %d checks, %d not_applicable" % (len(checks), len(na)))


if __name__ == "__main__":
    main()
