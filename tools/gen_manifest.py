#!/usr/bin/env python3
"""Regenerates /verif/MANIFEST.json from the table below (single source of truth)."""
import json
import os
import subprocess

VERIF = os.path.dirname(os.path.dirname(os.path.abspath(__file__)))

# id -> (category, engine, technique, text, note, design_ref)
CHECKS = {
    "C01": ("exploration", "hypothesis+enginesim",
            "model-based PBT: generated graphs x histories vs from-scratch reference evaluator",
            "No counter-example among generated DAG programs x histories (mutate/tamper/redefine/restart/build under "
            "generated completion schedules): every returned value and every value handed to a task equals a "
            "from-scratch Python evaluation of the current external state.",
            "Trusts the ~150-line reference evaluator and the enginesim executor; values are small integers; "
            "cancelled histories belong to C05.", "DESIGN 2/C01"),
    "C02": ("exploration", "hypothesis+enginesim",
            "model-based PBT: shadow-ledger invariant over the engine callback trace",
            "No counter-example among generated histories: every task creation is unique per build, justified by the "
            "checker's own epoch ledger, reported with a true reason; immediate rebuilds execute nothing.",
            "Ledger derives 'changed' from completion values in the trace; interrupted rules may report any reason.",
            "DESIGN 2/C02"),
    "C03": ("exploration", "hypothesis+enginesim",
            "differential PBT (single engine vs restart at every build) + raw-SQLite/BuildDB round-trip vs completion ledger + version-pair and lock families",
            "No counter-example among generated histories: executions/reasons/values identical with an engine+database "
            "restart at every build boundary; stored rows (raw sqlite3 and fresh BuildDB) equal the checker's ledger of "
            "processed completions for adversarial key/value bytes; foreign versions are never interpreted; a second "
            "engine cannot build while the first holds the database.",
            "Restart = new engine + new BuildDB object in one process; SQLite itself is trusted.", "DESIGN 2/C03"),
    "C05": ("fault_enumeration", "hypothesis+enginesim",
            "fault enumeration: cancelBuild() at every engine step / callback boundary / idle wait of a generated victim build, two continuations each",
            "For every generated history the cancellation is placed at EVERY loop top, callback boundary and idle wait of "
            "the victim build (stride-sampled above the cap, counted), continued on the same engine after reset and on a "
            "new engine over the same database; termination, no late callbacks, database rows only from processed "
            "completions, clean values afterwards.",
            "Cancellation instants are engine steps exposed by the LLBUILD_VERIF hooks; one known finding "
            "(discovered-dependency ABA) is classified by its history motif and reported as KNOWN-FINDING.",
            "DESIGN 2/C05"),
    "C06": ("exploration", "hypothesis+enginesim",
            "per-case exhaustive enumeration of completion orders + protocol monitor; randomised racing threads under TSan",
            "Every completion order at every idle point of every build of each generated history (capped, counted) gives "
            "the same values / executed sets as the synchronous run and satisfies the per-task protocol monitor; a "
            "threaded run under ThreadSanitizer (optionally with a racing cancel) terminates without a report.",
            "Deterministic modes own completion order, not preemption inside engine critical sections; threads mode is "
            "sampling.", "DESIGN 2/C06"),
    "C07": ("exploration", "hypothesis+enginesim",
            "model-based PBT: generated digraphs x histories vs fixpoint reference; cycle-list validity predicate",
            "No counter-example among generated cyclic/acyclic graphs (incl. cycles through rules being scanned and "
            "through dynamic edges): cyclic => failure + exactly one well-formed report whose consecutive pairs are "
            "real wait-fors; acyclic => no report, no stall, clean value.",
            "Cycles that exist only through single-use edges are don't-care (the statement does not fix whether the "
            "edge is demanded when its owner is up to date).", "DESIGN 2/C07"),
    "C20": ("exploration", "hypothesis+enginesim",
            "differential PBT: the same generated history through the C++ and the C interface, compared event by event",
            "No divergence between C++ Rule/Task clients and llb_buildengine_* clients on generated programs x histories "
            "(every callback with arguments, statuses, completions, values, raw database rows), the C trace "
            "satisfies C01's value oracle, and the file read back through llb_database_* equals what core::BuildDB reads.",
            "Restricted to what core.h can express (no signatures, prior values, single-use, cancel).", "DESIGN 2/C20"),
    "C19": ("exploration", "libfuzzer",
            "coverage-guided fuzzing (libFuzzer, ASan+UBSan, exact-size buffers) with in-target tiling/EOF/bounds/termination oracles; structure-aware YAML shape decoding",
            "No crash, sanitizer report, failed assertion or oracle trap in N executions per target across the three "
            "hand-written parsers, the Ninja loader and the build-description loader (shape-generated YAML), from "
            "seeded and empty corpora; committed regression inputs of seven repaired defects replay clean.",
            "Absence is never established; -seed pins a campaign only approximately (the saved artefact is the "
            "reproducible unit); leak detection off; YAML scalars are NUL-free.", "DESIGN 2/C19"),
    "C13": ("exploration", "hypothesis+valtool",
            "PBT over generated file-state pairs on real temp files, three file-system modes x getFileInfo/getLinkInfo, oracle from os.stat + generated contents",
            "No counter-example among generated (state1,state2) pairs: default/device-agnostic comparisons are unequal "
            "whenever existence/size/mtime(/dev/inode) differ and equal when untouched; checksum-only equality iff "
            "(type,size,content) equal; the missing sentinel never stands for an existing object.",
            "Uses the sandbox file system; mtimes set explicitly (ns); FileInfo::operator== evaluated inside valtool.",
            "DESIGN 2/C13"),
    "C14": ("exploration", "hypothesis+valtool+bsx",
            "PBT of pathIsPrefixedByPath against a three-valued component-wise reference + removal-set invariant over histories of expected-output lists through the real stale-file-removal command (recording FileSystem)",
            "No counter-example among generated (path, root) pairs: true on every must pair, false on every must-not pair "
            "(don't-care only for doubled-separator spellings and the empty root); over generated histories of lists and "
            "roots, each build removes exactly (previous successful list minus current list) restricted by the roots, never a "
            "relative path when roots are given, and nothing else.",
            "'..'/'.' are ordinary components (lexical).", "DESIGN 2/C14"),
    "C15": ("exploration", "hypothesis+valtool",
            "round-trip + canonicity + injectivity PBT over every BuildKey constructor and BuildValue factory (ASan build)",
            "No counter-example: decode(encode(x)) == x through every accessor; re-encoding and copy/move/move-assign "
            "give identical bytes; every generated single-field perturbation changes the bytes; kind tags are distinct "
            "and mutually inverse.",
            "Constructor preconditions respected (NUL-free StringList entries, non-missing ExistingInput).",
            "DESIGN 2/C15"),
    "C08": ("exploration", "hypothesis+bsx",
            "model-based PBT: generated descriptions x edit histories, each build in a new bsx process, vs a Python description evaluator",
            "No counter-example among generated descriptions x histories: after every successful build each reachable output "
            "holds exactly the bytes the evaluator computes from the current description and current source contents; "
            "builds fail only for missing declared inputs.",
            "vtool commands are deterministic by construction; discovered dependencies are source files; logical clock for mtimes.",
            "DESIGN 2/C08"),
    "C09": ("exploration", "hypothesis+bsx",
            "metamorphic PBT: one-attribute definition pairs must differ in signature; process-independence; null-build / re-run histories",
            "No counter-example: every generated single-attribute change of a shell command definition (incl. list-boundary and "
            "input<->output moves, each deps-style pair, every flag) changes Command::getSignature(); description-only changes do "
            "not; signatures agree across processes; null builds start nothing, relevant edits and tampered outputs re-run the command.",
            "Signatures are read through the real BuildFile loader at commandPreparing in a dry build.", "DESIGN 2/C09"),
    "C10": ("exploration", "hypothesis+bsx",
            "fault-injection PBT: generated fault subsets (exit/signal/missing input/unwritable output) x serial/-j4 x cancel-or-continue front end, closure invariant over the vtool log",
            "No counter-example: in a faulted build no command starts whose transitive producer closure contains a failed or "
            "cancelled command, the build reports failure, the repaired build re-attempts every failed/cancelled command, "
            "exits 0, reaches the clean state and is followed by a null build.",
            "A phony command's virtual output is an ordering gate (llbuild deliberately does not propagate failure across it).",
            "DESIGN 2/C10"),
    "C11": ("exploration", "hypothesis+valtool+bsx",
            "escape/parse round-trip PBT on exact-size buffers (ASan) + truncation/stray-byte family + touch-discovered-path histories through bsx",
            "No counter-example: documented escaping round-trips byte for byte for both formats; malformed files either "
            "report an error (and then fail the command) or yield a prefix; editing, deleting or creating any discovered "
            "path re-runs the command, nothing else does.",
            "Only dependency-info input records carry a re-run obligation; paths cannot contain NUL/TAB/CR/LF or begin with ':'.",
            "DESIGN 2/C11"),
    "C12": ("exploration", "hypothesis+bsx",
            "PBT over (tree, edit sequence) vs a three-valued reference walk using libc fnmatch",
            "No counter-example: tree nodes re-run after every observable visible change and not after null or hidden-only "
            "edits; structure nodes re-run iff the visible (path,type) set changed.",
            "chmod-only and same-size-same-mtime rewrites are not observable by stat (C13) and are don't-care; symlinks in "
            "generated trees are dangling (llbuild stats through links).", "DESIGN 2/C12"),
    "C17": ("exploration", "hypothesis+ninjadump+ninja",
            "grammar-based differential PBT: generated manifests loaded by llbuild vs a Python evaluator of Ninja's rules that is itself cross-validated against the installed ninja on every case; shell-quoting round trip through /bin/sh",
            "No counter-example among generated manifests (scoping, lazy rule variables, escapes, continuations, include/"
            "subninja trees, keyword-like identifiers, non-ASCII bytes): every field of every loaded build statement "
            "equals the evaluator's, which agrees with `ninja -t compdb` on the command of every edge; shellEscaped(p) "
            "round-trips through /bin/sh for generated byte strings.",
            "Only manifests ninja 1.11 accepts and on which the evaluator agrees with ninja are judged (others counted); "
            "LF line endings; a build's own bindings are not referenced from its own path list; no `default` statements.",
            "DESIGN 2/C17"),
    "C18": ("exploration", "hypothesis+llbuild-ninja",
            "model-based PBT: generated Ninja manifests x edit/fault histories through the `llbuild ninja build` CLI (new process per build) vs manifest evaluator; must/may started-set invariant; null-build check",
            "No counter-example among generated manifests x histories: outputs equal the evaluator's after every successful "
            "build; immediate rebuilds start nothing (with a database); after a single change the started set lies between "
            "the must and may sets (order-only edges never propagate, implicit/depfile-discovered edges do, a changed "
            "command line re-runs its command); failing commands stop dependents and are retried.",
            "Outputs are deleted but never tampered with (Ninja's newer-than model); order-only inputs are not read by commands; "
            "logical clock for mtimes.", "DESIGN 2/C18"),
    "C04": ("fault_enumeration", "hypothesis+enginesim+killshim",
            "fault enumeration: SIGKILL before EVERY database/journal system call of a generated victim build (LD_PRELOAD shim), then snapshot-consistency and convergence oracles in a fresh process",
            "For every generated history the victim process is killed before each of its T database/journal system calls "
            "(stride-sampled above the cap, counted); after each kill the file opens, passes integrity_check, its rows equal "
            "the ledger before the build or after the victim's processed completions (never a mixture, epochs bounded by the "
            "stored iteration, all dependency ids resolve), and the remaining history converges to clean values although "
            "artifacts were already rewritten.",
            "Process death only (no power loss); exhaustive over syscall boundaries of the generated histories, not over all histories.",
            "DESIGN 2/C04"),
    "C16": ("exploration", "hypothesis+qsim",
            "PBT over generated job mixes and scripted child behaviours against the real queues (TSan build); invariants over a totally ordered event log",
            "No counter-example among generated job mixes / child scripts / cancellation points: every job body ran exactly "
            "once before destruction, never more bodies than lanes, one completion per launch after all output, status and "
            "output match the child's scripted fate, environment precedence holds, nothing starts after cancelAllJobs() "
            "returned, no child left behind, no ThreadSanitizer report.",
            "Interleavings are sampled; the client waits for completions before destroying the queue (as the engine does).",
            "DESIGN 2/C16"),
}

NOT_APPLICABLE = {
}


def main():
    src_commits = subprocess.run(
        ["git", "-C", "/repo", "log", "--format=%H %s", "--grep=^verif hooks"], stdout=subprocess.PIPE,
        text=True).stdout.strip().splitlines()
    checks = []
    for pid in sorted(CHECKS):
        cat, engine, technique, text, note, ref = CHECKS[pid]
        checks.append({
            "property_id": pid,
            "quick_cmd": "./check %s quick" % pid,
            "thorough_cmd": "./check %s thorough" % pid,
            "evidence_file": "/verif/evidence/%s.json" % pid,
            "replay_cmd_template": "./check %s --replay {path}" % pid,
            "engine": engine,
            "technique": technique,
            "level_claimed": {"category": cat, "text": text, "design_ref": ref},
            "level_note": note,
        })
    props = [json.loads(l)["id"] for l in open(os.path.join(VERIF, "properties.jsonl"))]
    na = []
    for pid in props:
        if pid not in CHECKS:
            na.append({"property_id": pid,
                       "reason": NOT_APPLICABLE.get(pid, "check not built yet in this session (planned, see DESIGN.md section 2)")})
    manifest = {
        "version": 1,
        "setup_cmd": "python3 tools/build.py rel asan tsan",
        "hooks": {
            "guard": "LLBUILD_VERIF",
            "enable": "tools/build.py mirrors /repo's working tree into build/src and builds it through "
                      "harness/CMakeLists.txt with add_compile_definitions(LLBUILD_VERIF) (clang-14; flavours rel/asan/tsan)",
            "baseline_off_cmd": "tools/baseline_off.sh",
            "source_commits": [c.split()[0] for c in src_commits],
            "add_only": True,
        },
        "engines": [
            {"name": "hypothesis+qsim", "path": "pbt/c16.py + harness/qsim.cpp + harness/childsim.c", "serves_properties": ["C16"],
             "kind_free_text": "Hypothesis job-mix generator; qsim drives LaneBasedExecutionQueue/SerialQueue under TSan; childsim is the scripted child"},
            {"name": "hypothesis+llbuild-ninja", "path": "pbt/c18.py", "serves_properties": ["C18"],
             "kind_free_text": "Hypothesis histories driving the stock `llbuild ninja build` CLI over vtool workspaces"},
            {"name": "hypothesis+ninjadump+ninja", "path": "pbt/c17.py + harness/ninjadump.cpp", "serves_properties": ["C17"],
             "kind_free_text": "Hypothesis grammar generator; llbuild side = hex dump of the loaded ninja::Manifest; reference = Python evaluator cross-checked against /usr/bin/ninja 1.11"},
            {"name": "hypothesis+bsx", "path": "pbt/bs_model.py + harness/bsx.cpp + harness/vtool.c",
             "serves_properties": [p for p in sorted(CHECKS) if "bsx" in CHECKS[p][1]],
             "kind_free_text": "Hypothesis generating build descriptions and edit histories; bsx = BuildSystemFrontend front end (target or single node, recording FS); vtool = deterministic command with logical clock and fault injection; oracle = Python description evaluator"},
            {"name": "hypothesis+valtool", "path": "pbt/val.py + harness/valtool.cpp",
             "serves_properties": [p for p in sorted(CHECKS) if "valtool" in CHECKS[p][1]],
             "kind_free_text": "Hypothesis driving a persistent line-protocol server (ASan build) that exposes llbuild's pure value-level functions; replaces the rapidcheck binary planned in DESIGN 1.1 (same oracles, shared evidence/replay plumbing, ~3-5k cases/s)"},
            {"name": "libfuzzer", "path": "fuzz/ + pbt/c19.py", "serves_properties": ["C19"],
             "kind_free_text": "five libFuzzer targets (clang-14 -fsanitize=fuzzer,address,undefined) with semantic oracles inside the targets"},
            {"name": "hypothesis+enginesim", "path": "pbt/ + harness/enginesim.cpp",
             "serves_properties": [p for p in sorted(CHECKS) if "enginesim" in CHECKS[p][1]],
             "kind_free_text": "Hypothesis 6.168 stateful-style history generation driving a C++ script executor "
                               "over core::BuildEngine as a sub-process per case; oracles in Python"},
        ],
        "checks": checks,
        "not_applicable": na,
        "notes": "All checks rebuild from /repo's working tree (rsync --checksum mirror + incremental ninja). "
                 "VERIF_SEED seeds every generator; VERIF_CASES overrides the case budget.",
    }
    with open(os.path.join(VERIF, "MANIFEST.json"), "w") as f:
        json.dump(manifest, f, indent=1)
    print("MANIFEST.json: %d checks, %d not_applicable" % (len(checks), len(na)))


if __name__ == "__main__":
    main()
