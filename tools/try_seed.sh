#!/bin/bash
# usage: try_seed.sh <patch> <check ids...>  -- applies a seeded change to /repo, runs the quick checks, reverts.
patch="$1"; shift
cd /repo && git apply "$patch" || { echo "patch does not apply to /repo"; exit 2; }
cd /verif
for c in "$@"; do
  s=$(date +%s)
  out=$(VERIF_TIMEOUT=${VERIF_TIMEOUT:-30} ./check $c quick 2>&1); r=$?
  e=$(date +%s)
  echo "== $c exit=$r $((e-s))s: $(echo "$out" | grep -m1 'violation detail' | cut -c1-220)"
done
cd /repo && git checkout -- .
rm -f /verif/replays/*.json /verif/replays/C19-*
cd /verif && git checkout -- evidence 2>/dev/null
