#!/bin/bash
# usage: try_seed.sh <patch> <check ids...>  -- applies a seeded change to /repo, runs the quick checks, reverts.
# With TRY_IN_WORKTREE=1 the change is applied to a scratch worktree of /repo instead (VERIF_REPO points the
# checks at it), for when something else is reading /repo's working tree at the same time.
patch="$1"; shift
if [ -n "$TRY_IN_WORKTREE" ]; then
  wt=/tmp/tryrepo-$$
  git -C /repo worktree add --detach "$wt" HEAD -q || exit 2
  trap 'git -C /repo worktree remove --force "$wt"; git -C /repo worktree prune' EXIT
  git -C "$wt" apply "$patch" || { echo "patch does not apply"; exit 2; }
  export VERIF_REPO="$wt"
else
  cd /repo && git apply "$patch" || { echo "patch does not apply to /repo"; exit 2; }
fi
cd /verif
for c in "$@"; do
  s=$(date +%s)
  out=$(VERIF_TIMEOUT=${VERIF_TIMEOUT:-30} ./check $c quick 2>&1); r=$?
  e=$(date +%s)
  echo "== $c exit=$r $((e-s))s: $(echo "$out" | grep -m1 'violation detail' | cut -c1-220)"
done
[ -z "$TRY_IN_WORKTREE" ] && { cd /repo && git checkout -- .; }
rm -f /verif/replays/*.json /verif/replays/C19-*
cd /verif && git checkout -- evidence 2>/dev/null
