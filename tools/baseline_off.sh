#!/bin/bash
# Build /repo's current working tree the repository's own way (its compiler,
# its flags, BUILD_TESTING=ON, NO -DLLBUILD_VERIF) and run the unit-test
# binaries that make up the pinned 83-test baseline.
set -u
here="$(cd "$(dirname "$0")/.." && pwd)"
repo="${VERIF_REPO:-/repo}"
src="$here/build/src"
bdir="$here/build/baseline"
mkdir -p "$here/build"
(
  flock 9
  mkdir -p "$src"
  rsync -rlpgoD --checksum --delete --exclude=/.git --exclude=/_build --exclude=/.build "$repo/" "$src/" || exit 2
  if [ ! -f "$bdir/build.ninja" ]; then
    cmake -G Ninja -S "$src" -B "$bdir" -DCMAKE_CXX_COMPILER=clang++-16 -DCMAKE_C_COMPILER=clang-16 \
      -DCMAKE_BUILD_TYPE=RelWithDebInfo -DCMAKE_CXX_FLAGS=-Wno-error -DBUILD_TESTING=ON >"$bdir.configure.log" 2>&1 \
      || { cat "$bdir.configure.log"; exit 2; }
  fi
  cmake --build "$bdir" -j"$(nproc)" >"$bdir.build.log" 2>&1 || { tail -50 "$bdir.build.log"; exit 2; }
) 9>"$here/build/.lock" || exit 2
if grep -rq "LLBUILD_VERIF" "$bdir/build.ninja"; then echo "guard unexpectedly on"; exit 2; fi
rc=0
total=0
for t in BasicTests BuildSystemTests CAPITests CASTests CoreTests EvoTests NinjaTests; do
  out="$("$bdir/bin/$t" 2>&1)"; r=$?
  n=$(echo "$out" | grep -c '^\[       OK \]')
  total=$((total+n))
  echo "$t: exit=$r passed=$n"
  if [ $r -ne 0 ]; then rc=1; echo "$out" | grep -E 'FAILED|Failure' | head -20; fi
done
echo "baseline (guard off): $total tests passed"
[ "$total" -ge 83 ] || rc=1
exit $rc
